#!/bin/sh
# tools/reach.sh <tier> [PIDs...]  - reach monitor: runs the checks with coverage.py (line + branch) attached to every worker and
# reports which lines / branches of /repo/synapgrad NO workload of the listed checks executed.  A change on such a line cannot be
# observed by any monitor, so this list is where workloads are missing.  Output: out/reach/<tier>/report.txt (+ per-property totals).
TIER=${1:-quick}; shift
PIDS=${*:-C01 C02 C03 C04 C05 C06 C07 C08 C09 C10 C11 C12 C13 C14 C15 C16 C17 C18 C19 C20}
cd "$(dirname "$0")/.." || exit 2
D=$(pwd)/out/reach/$TIER; rm -rf "$D"; mkdir -p "$D"
for P in $PIDS; do
  VERIF_COVERAGE="$D/$P" VERIF_NO_EVIDENCE=1 ./check $P --tier $TIER > "$D/$P.log" 2>&1
  echo "$P rc=$? $(tail -1 "$D/$P.log" | cut -c1-160)"
  ( cd "$D/$P" 2>/dev/null && /venv/bin/python -m coverage combine --data-file="$D/$P.cov" -q . >/dev/null 2>&1 )
done
/venv/bin/python - "$D" $PIDS <<'PY'
import sys, os, coverage, json
D = sys.argv[1]; pids = sys.argv[2:]
files = [f for f in (os.path.join(D, p + ".cov") for p in pids) if os.path.exists(f)]
allc = coverage.CoverageData(basename=os.path.join(D, "all.cov"))
for f in files:
    d = coverage.CoverageData(basename=f); d.read(); allc.update(d)
allc.write()
cov = coverage.Coverage(data_file=os.path.join(D, "all.cov"), branch=True, config_file=False); cov.load()
with open(os.path.join(D, "report.txt"), "w") as out:
    cov.report(file=out, show_missing=True, include=["*/synapgrad/*"], omit=["*/visual*", "*/datasets*"], skip_empty=True)
print(open(os.path.join(D, "report.txt")).read())
PY
