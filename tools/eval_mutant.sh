#!/bin/sh
# tools/eval_mutant.sh <patch.diff> [demo.py] [PIDs...]
# Applies the patch to a scratch worktree of /repo HEAD (never to /repo itself), then
#   1. runs the demo on the clean and on the patched tree (if given),
#   2. runs the repository's own suite on the patched tree,
#   3. runs the quick tier of the listed checks (default: all 20) against the patched tree (no evidence written)
# and prints one line per check.  The worktree is removed afterwards.
PATCH=$(readlink -f "$1"); shift
DEMO=""
case "$1" in *.py) DEMO=$(readlink -f "$1"); shift;; esac
PIDS=${*:-C01 C02 C03 C04 C05 C06 C07 C08 C09 C10 C11 C12 C13 C14 C15 C16 C17 C18 C19 C20}
WT=/tmp/mut-$$
git -C /repo worktree add --detach "$WT" ${BASE:-HEAD} >/dev/null 2>&1 || exit 2
cd "$WT" || exit 2
if [ -n "$DEMO" ]; then
  PYTHONPATH="$WT" timeout 600 /venv/bin/python "$DEMO" >/dev/null 2>&1; echo "demo clean rc=$?"
fi
git apply "$PATCH" || { echo "PATCH DOES NOT APPLY"; cd /; git -C /repo worktree remove --force "$WT"; exit 2; }
if [ -n "$DEMO" ]; then
  PYTHONPATH="$WT" timeout 600 /venv/bin/python "$DEMO" >/dev/null 2>&1; echo "demo patched rc=$?"
fi
if [ -z "$SKIP_SUITE" ]; then
env -u SYNAPGRAD_VERIF OMP_NUM_THREADS=2 OPENBLAS_NUM_THREADS=2 MKL_NUM_THREADS=2 PYTHONPATH="$WT" /venv/bin/python -m pytest -q -p no:cacheprovider --timeout=900 tests 2>&1 | tail -1 | sed 's/^/suite: /'
fi
cd ${VERIF_DIR:-/verif}
for P in $PIDS; do
  OUT=$(SYNAPGRAD_ROOT="$WT" VERIF_NO_EVIDENCE=1 ./check "$P" --tier ${TIER:-quick} 2>/dev/null); RC=$?
  NV=$(echo "$OUT" | grep -c '^VIOLATION')
  FIRST=$(echo "$OUT" | grep '^VIOLATION' | head -2 | sed 's/.*# //' | cut -c1-150 | tr '\n' '|')
  echo "$P rc=$RC violations=$NV $FIRST"
done
cd /; git -C /repo worktree remove --force "$WT"
