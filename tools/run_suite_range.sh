#!/bin/sh
# tools/run_suite_range.sh <from>..<to> : runs the repo suite on every commit in the range (oldest first)
for c in $(git -C /repo rev-list --reverse "$1"); do
  /verif/tools/run_suite.sh "$c" 2>&1 | grep -E '^(suite:|SUITE)'
done
