#!/usr/bin/env python3
"""Builds seeded/<id>/meta.json and seeded/MATRIX.md from the eval.txt files written by tools/eval_mutant.sh."""
import json, os, re, glob
HERE = os.path.dirname(os.path.dirname(os.path.abspath(__file__)))
props = {json.loads(l)["id"]: json.loads(l)["title"] for l in open(os.path.join(HERE, "properties.jsonl"))}
rows = []
for d in sorted(glob.glob(os.path.join(HERE, "seeded", "C*-*m[0-9]"))):
    mid = os.path.basename(d)
    ev = os.path.join(d, "eval.txt")
    txt = open(ev).read() if os.path.exists(ev) else ""
    ft_path = os.path.join(d, "eval_target_final.txt")
    fttxt = open(ft_path).read() if os.path.exists(ft_path) else ""
    if not txt and not fttxt and not os.path.exists(os.path.join(d, "eval_first_pass.txt")):
        continue
    fp_path = os.path.join(d, "eval_first_pass.txt")
    fptxt = open(fp_path).read() if os.path.exists(fp_path) else ""
    demo_clean = re.search(r"demo clean rc=(\d+)", txt) or re.search(r"demo clean rc=(\d+)", fptxt)
    demo_patched = re.search(r"demo patched rc=(\d+)", txt) or re.search(r"demo patched rc=(\d+)", fptxt)
    sp_ = os.path.join(d, "suite.txt")
    suite = re.search(r"suite: (.*)", txt) or re.search(r"suite: (.*passed.*)", fptxt) or (re.search(r"suite: (.*)", open(sp_).read()) if os.path.exists(sp_) else None)
    first = None
    if fptxt and len(re.findall(r"^C\d+ rc=", fptxt, re.M)) == 20:
        fc = [m.group(1) for m in re.finditer(r"^(C\d+) rc=1 ", fptxt, re.M)]
        first = {"caught_by": fc, "caught_by_target_check": mid.split("-")[0] in fc}
    judged = open(os.path.join(d, "judgement.txt")).read().strip() if os.path.exists(os.path.join(d, "judgement.txt")) else None
    caught = {}
    for src in (fptxt if 'fptxt' in dir() else "", txt):
        pass
    earlier = {}
    for src_txt in (open(os.path.join(d, "eval_first_pass.txt")).read() if os.path.exists(os.path.join(d, "eval_first_pass.txt")) else "", txt):
        for m in re.finditer(r"^(C\d+) rc=(\d+) violations=(\d+) ?(.*)$", src_txt, re.M):
            if m.group(2) == "1":
                earlier[m.group(1)] = m.group(4).split("|")[0][:140]
    target_ = mid.split("-")[0]
    final_target = None
    for m in re.finditer(r"^(C\d+) rc=(\d+) violations=(\d+) ?(.*)$", fttxt, re.M):
        if m.group(1) == target_:
            final_target = {"rc": int(m.group(2)), "first_signature": m.group(4).split("|")[0][:160]}
    caught = dict(earlier)
    if final_target is not None:
        # the final harness decides the target column; the other columns come from the all-20 runs with earlier harness versions
        caught.pop(target_, None)
        if final_target["rc"] == 1:
            caught[target_] = final_target["first_signature"]
    thorough = {}
    if os.path.exists(os.path.join(d, "eval_thorough.txt")):
        for m in re.finditer(r"^(C\d+) rc=(\d+) violations=(\d+) ?(.*)$", open(os.path.join(d, "eval_thorough.txt")).read(), re.M):
            if m.group(2) == "1" and m.group(1) not in caught:
                thorough[m.group(1)] = m.group(4).split("|")[0][:140]
    notes = open(os.path.join(d, "notes.txt")).read().strip() if os.path.exists(os.path.join(d, "notes.txt")) else ""
    target = mid.split("-")[0]
    old = {}
    mp = os.path.join(d, "meta.json")
    if os.path.exists(mp):
        try:
            old = json.load(open(mp))
        except Exception:
            old = {}
    meta = {
        "id": mid, "breaks_property": target, "property_title": props[target],
        "needs_to_manifest": notes,
        "confirmed": {"demo_passes_on_clean_tree": bool(demo_clean and demo_clean.group(1) == "0"),
                      "demo_fails_with_patch": bool(demo_patched and demo_patched.group(1) != "0"),
                      "repository_suite_with_patch": suite.group(1) if suite else old.get("confirmed", {}).get("repository_suite_with_patch", "not re-run")},
        "what_was_run": "tools/eval_mutant.sh seeded/%s/patch.diff seeded/%s/demo.py  (scratch worktree of /repo HEAD; demo on clean and patched tree; repository suite on patched tree; quick tier of all 20 checks with SYNAPGRAD_ROOT=<patched worktree>)" % (mid, mid),
        "final_harness_target_check": final_target,
        "caught_by_quick_tier": caught,
        "caught_by_target_check": target in caught,
        "caught_by_thorough_tier_only": thorough,
        "first_pass_before_strengthening": first if first is not None else old.get("first_pass_before_strengthening"),
        "judgement": judged,
    }
    json.dump(meta, open(mp, "w"), indent=1)
    rows.append(meta)
with open(os.path.join(HERE, "seeded", "MATRIX.md"), "w") as f:
    f.write("# Seeded changes x checks (quick tier)\n\n`T` = caught by the check of the property the change was written against (final harness, `eval_target_final.txt`), "
            "`x` = caught by another check (from the all-twenty runs: `eval.txt` for rounds 1-2 with the harness after round 2, `eval_first_pass.txt` for rounds 3-4 with the harness "
            "frozen before each round - the final harness was only re-run on the target check), `t*` = caught by that check's thorough tier only.\n\n")
    ids = sorted(props)
    f.write("| change | demo ok | suite | " + " | ".join(i[1:] for i in ids) + " |\n|---|---|---|" + "---|" * len(ids) + "\n")
    for r in rows:
        ok = r["confirmed"]["demo_passes_on_clean_tree"] and r["confirmed"]["demo_fails_with_patch"]
        f.write(f"| {r['id']} | {'yes' if ok else 'NO'} | {r['confirmed']['repository_suite_with_patch'][:22]} | " +
                " | ".join((("T" if i == r["breaks_property"] else "x") if i in r["caught_by_quick_tier"] else ("t*" if i in r.get("caught_by_thorough_tier_only", {}) else "")) for i in ids) + " |\n")
    n = len(rows)
    t = sum(1 for r in rows if r["caught_by_target_check"])
    a = sum(1 for r in rows if r["caught_by_quick_tier"])
    f.write(f"\n{n} changes; {t} caught by the target property's check; {a} caught by at least one check; "
            f"missed by every quick check: {[r['id'] for r in rows if not r['caught_by_quick_tier']]}\n")
    f.write("\n## Per round\n\n| round | changes | first pass: target check | first pass: some check | now: target check | now: some check |\n|---|---|---|---|---|---|\n")
    for tag, name in (("-m", "1"), ("-r2m", "2"), ("-r3m", "3"), ("-r4m", "4"), ("-r5m", "5"), ("-r6m", "6"), ("-r7m", "7"), ("-r8m", "8 (ten properties)")):
        rr = [r for r in rows if re.search(re.escape(tag) + r"\d$", r["id"]) and (tag != "-m" or re.search(r"^C\d+-m\d$", r["id"]))]
        if not rr:
            continue
        fp = [r for r in rr if isinstance(r.get("first_pass_before_strengthening"), dict)]
        ft = sum(1 for r in fp if r["first_pass_before_strengthening"].get("caught_by_target_check"))
        fa = sum(1 for r in fp if r["first_pass_before_strengthening"].get("caught_by"))
        f.write(f"| {name} | {len(rr)} | {ft}/{len(fp)} | {fa}/{len(fp)} | {sum(1 for r in rr if r['caught_by_target_check'])}/{len(rr)} | {sum(1 for r in rr if r['caught_by_quick_tier'])}/{len(rr)} |\n")
    jud = [r for r in rows if r.get("judgement")]
    if jud:
        f.write("\n## Changes judged not to violate the property as stated (never made a known finding, never the reason for loosening a check)\n\n")
        for r in jud:
            f.write(f"* `{r['id']}`: {r['judgement']}\n")
print(open(os.path.join(HERE, "seeded", "MATRIX.md")).read()[-600:])
