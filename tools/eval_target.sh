#!/bin/sh
# tools/eval_target.sh <round-tag e.g. r6> [parallelism] [outfile-name]
# Runs, for every kept change of the round, the quick tier of the check of the property it was written against, with the harness as it is now.
TAG=$1; J=${2:-2}; OUT=${3:-eval_target_final.txt}
cd "$(dirname "$0")/.." || exit 2
ls -d seeded/C*-${TAG}m[0-9] | xargs -n1 basename | xargs -P $J -I{} sh -c 'P=$(echo {} | cut -d- -f1); SKIP_SUITE=1 tools/eval_mutant.sh seeded/{}/patch.diff $P > seeded/{}/'$OUT' 2>&1'
for d in seeded/C*-${TAG}m[0-9]; do id=$(basename $d); P=${id%%-*}; echo "$id $(grep "^$P " $d/$OUT | cut -c1-160)"; done
