#!/bin/sh
# copies behaviour-preserving refactors produced by sub-agents into /verif/benign/<id>/ and runs suite + all quick checks on each;
# any VIOLATION here is either a refactor that is not behaviour-preserving after all, or a false alarm of a check (triage by hand)
for d in /tmp/benign/*/refactors; do
  A=$(basename $(dirname $d))
  for k in 1 2 3 4; do
    [ -f $d/r$k.diff ] || continue
    ID=$A-r$k
    mkdir -p /verif/benign/$ID
    cp $d/r$k.diff /verif/benign/$ID/patch.diff
    cp $d/r$k.txt /verif/benign/$ID/notes.txt 2>/dev/null
  done
done
ls /verif/benign | xargs -P ${1:-4} -I{} sh -c '[ -f /verif/benign/{}/eval.txt ] || /verif/tools/eval_mutant.sh /verif/benign/{}/patch.diff > /verif/benign/{}/eval.txt 2>&1'
grep -l "rc=1" /verif/benign/*/eval.txt
