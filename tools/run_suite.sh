#!/bin/sh
# tools/run_suite.sh [rev]  — runs the repository's own pinned suite (guard off) on a scratch worktree of /repo at <rev>
# (default HEAD) and compares with the stable baseline of /root/.vp/BASELINE.json.  The worktree is removed afterwards.
REV=${1:-HEAD}
SHA=$(git -C /repo rev-parse --short "$REV") || exit 2
WT=/tmp/suite-$SHA-$$
git -C /repo worktree add --detach "$WT" "$REV" >/dev/null 2>&1 || exit 2
cd "$WT" || exit 2
env -u SYNAPGRAD_VERIF PYTHONPATH="$WT" /venv/bin/python -m pytest -ra -q -p no:cacheprovider --timeout=900 \
   --continue-on-collection-errors --junitxml="$WT/junit.xml" > "$WT/log.txt" 2>&1
/venv/bin/python - "$WT/junit.xml" <<'PY'
import json, sys, xml.etree.ElementTree as ET
base = json.load(open('/root/.vp/BASELINE.json'))
stable = set(base['stable_pass'])
t = ET.parse(sys.argv[1]).getroot()
passed = set()
for tc in t.iter('testcase'):
    name = tc.get('classname') + '::' + tc.get('name')
    if not any(c.tag in ('failure', 'error', 'skipped') for c in tc):
        passed.add(name)
missing = sorted(stable - passed)
print(f"suite: {len(passed)} passed; stable baseline {len(stable)}; stable tests not passing: {missing}")
sys.exit(1 if missing else 0)
PY
RC=$?
tail -3 "$WT/log.txt"
cd /; git -C /repo worktree remove --force "$WT"
echo "SUITE rev=$SHA rc=$RC"
exit $RC
