#!/bin/sh
# tools/suite_mutant.sh <patch.diff>  - repository suite on a scratch worktree of /repo HEAD with the patch applied (never /repo itself); prints the summary line
PATCH=$(readlink -f "$1")
WT=/tmp/suite-$$
git -C /repo worktree add --detach "$WT" ${BASE:-HEAD} >/dev/null 2>&1 || exit 2
cd "$WT" || exit 2
git apply "$PATCH" || { echo "PATCH DOES NOT APPLY"; cd /; git -C /repo worktree remove --force "$WT"; exit 2; }
env -u SYNAPGRAD_VERIF OMP_NUM_THREADS=2 OPENBLAS_NUM_THREADS=2 MKL_NUM_THREADS=2 PYTHONPATH="$WT" /venv/bin/python -m pytest -q -p no:cacheprovider --timeout=1800 tests 2>&1 | tail -1 | sed 's/^/suite: /'
cd /; git -C /repo worktree remove --force "$WT"
