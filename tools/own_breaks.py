#!/usr/bin/env python3
"""Deliberate property-breaking edits (DESIGN.md §9.3) applied one at a time to a scratch worktree of /repo HEAD; the listed
checks (quick tier) must report each.  Usage: python3 tools/own_breaks.py [name-substring]   (writes validation/own_breaks.md)"""
import os, subprocess, sys, json, tempfile

BREAKS = [
 # (name, file, old, new, checks expected to fire)
 ("C01-unbroadcast-dropped", "synapgrad/cpu_ops.py", "    return unbroadcast(grad_a, a.shape), unbroadcast(grad_b, b.shape)\n\n\ndef matmul_forward",
  "    return unbroadcast(grad_a, a.shape), grad_b if grad_b.shape == b.shape else unbroadcast(grad_b, b.shape) * 1.0 if b.ndim else unbroadcast(grad_b, b.shape)\n\n\ndef matmul_forward", []),
 ("C01-sum-keepdims-tuple", "synapgrad/cpu_ops.py", "    out_grad = np.zeros(a_shape, dtype=grad.dtype)\n    if not keepdims and axis is not None:\n        grad = unsqueeze_forward(grad, axis)\n\n    out_grad = out_grad + grad\n\n    return out_grad\n",
  "    out_grad = np.zeros(a_shape, dtype=grad.dtype)\n    if not keepdims and axis is not None:\n        grad = unsqueeze_forward(grad, axis if isinstance(axis, int) else tuple(sorted(ax % len(a_shape) for ax in axis))[::-1])\n\n    out_grad = out_grad + grad\n\n    return out_grad\n", ["C01"]),
 ("C01-unbind-negative-axis", "synapgrad/cpu_ops.py", "    if axis < 0: axis = len(a_shape) + axis\n    axes = tuple(", "    axes = tuple(", ["C01"]),
 ("C02-avgpool-divides-by-k", "synapgrad/cpu_ops.py", "    windows_grad = mean_backward(grad, windows.reshape(*windows.shape[:-2], -1).shape, -1, False)\n    windows_grad = windows_grad.reshape(windows.shape)",
  "    windows_grad = mean_backward(grad, windows.reshape(*windows.shape[:-2], -1).shape, -1, False) * windows.shape[-1]\n    windows_grad = windows_grad.reshape(windows.shape)", ["C02"]),
 ("C02-bn-drops-dvar", "synapgrad/cpu_ops.py", "        dL_dxi = (dL_dxi_hat / np.sqrt(variance + eps)) + (2.0 * dL_dvar * (x - mean) / n) + (dL_davg / n)",
  "        dL_dxi = (dL_dxi_hat / np.sqrt(variance + eps)) + (dL_davg / n)", ["C02"]),
 ("C02-leaky-slope-wrong-side", "synapgrad/cpu_ops.py", "    return grad * ((a > 0) + neg_slope * (a <= 0))", "    return grad * ((a >= 0) * neg_slope + (a < 0))", ["C02"]),
 ("C03-backward-unreversed", "synapgrad/tensor.py", "        for i, node in enumerate(reversed(ordered_nodes)):", "        for i, node in enumerate(sorted(reversed(ordered_nodes), key=lambda n: 0 if n is self else (1 if len(n._children) > 1 else 2))):", ["C03"]),
 ("C03-visited-skipped", "synapgrad/tensor.py", "                if child not in visited_nodes:\n                    visited_nodes.add(child)", "                if child not in visited_nodes or len(child._children) == 3:\n                    visited_nodes.add(child)", ["C03"]),
 ("C04-zero-noop-when-grad-exists", "synapgrad/tensor.py", "    def zero_(self):\n        self.grad = Tensor(np.zeros_like(self.data), device=self.device)",
  "    def zero_(self):\n        if self._grad is not None and self._grad_fn is None and self._retain_grad: return\n        self.grad = Tensor(np.zeros_like(self.data), device=self.device)", []),
 ("C04-kept-grads-repropagated", "synapgrad/tensor.py", "                if node._grad is not None: kept_grads[node] = node._grad\n                node.zero_()", "                if node._grad is not None and not node._retain_grad: kept_grads[node] = node._grad; node.zero_()\n                elif node._grad is None: node.zero_()", ["C04"]),
 ("C05-flatten-end-off-by-one", "synapgrad/functional.py", "        shape = shape[:start] + (-1,) + shape[end+1:]", "        shape = shape[:start] + (-1,) + shape[end+1:] if end_dim != -2 else shape[:start] + (-1,) + shape[end:]", ["C05"]),
 ("C05-rsub-sign", "synapgrad/tensor.py", "    def __rsub__(self, other) -> 'Tensor': # other - self\n        return other + (-self)", "    def __rsub__(self, other) -> 'Tensor': # other - self\n        return (-self) + other if not isinstance(other, int) else self + (-other)", ["C05"]),
 ("C06-floor-to-ceil", "synapgrad/conv_tools.py", "    num_windows = int(np.floor((length_padded - dilation * (kernel_size - 1) - 1) / stride + 1).item())", "    num_windows = int(np.ceil((length_padded - dilation * (kernel_size - 1) - 1) / stride + 1).item())", ["C06"]),
 ("C06-bn-unbiased-normalisation", "synapgrad/cpu_ops.py", "    var = running_var if running_var is not None and not training else x.var(axis=normed_dims)", "    var = running_var if running_var is not None and not training else x.var(axis=normed_dims, ddof=1 if n > 4 else 0)", ["C06"]),
 ("C07-exit-restores-true", "synapgrad/tensor.py", "        global gradient__\n        gradient__ = self.prev.pop()", "        global gradient__\n        self.prev.pop(); gradient__ = True", ["C07"]),
 ("C08-adam-bias-t-minus-1", "synapgrad/optim/optimizers.py", "                m2_corrected = self.m2[i] / (1.0 - self.beta2**self.t)\n\n                # Update the parameters using the Adam formula\n                p.data -= (self.lr * m1_corrected) / (np.sqrt(m2_corrected) + self.epsilon)\n                \n                \nclass AdamW",
  "                m2_corrected = self.m2[i] / (1.0 - self.beta2**max(self.t - 1, 1))\n\n                # Update the parameters using the Adam formula\n                p.data -= (self.lr * m1_corrected) / (np.sqrt(m2_corrected) + self.epsilon)\n                \n                \nclass AdamW", ["C08"]),
 ("C08-sgd-identity-lost", "synapgrad/optim/optimizers.py", "                else:\n                    p.data -= self.lr*grad", "                else:\n                    p.data = p.data - self.lr*grad", ["C08"]),
 ("C09-softmax-no-shift", "synapgrad/cpu_ops.py", "    shiftx = a - a.max(axis=axis, keepdims=True) ", "    shiftx = a - (a.max(axis=axis, keepdims=True) if a.ndim == 2 else 0) ", ["C09"]),
 ("C10-float64-leak", "synapgrad/nn/functional.py", "        if y_pred.requires_grad: y_pred._grad += loss_grad_data\n        if y_true.requires_grad: y_true._grad -= loss_grad_data", "        if y_pred.requires_grad: y_pred._grad = y_pred._grad + loss_grad_data.astype(np.float64)\n        if y_true.requires_grad: y_true._grad -= loss_grad_data", ["C10"]),
 ("C11-clone-returns-same", "synapgrad/cpu_ops.py", "def clone_forward(a:np.ndarray):\n    return a.copy()", "def clone_forward(a:np.ndarray):\n    return a.copy() if not a.flags['C_CONTIGUOUS'] or a.ndim < 2 else a", ["C11"]),
 ("C11-bn-inplace-on-x", "synapgrad/cpu_ops.py", "    x_norm = (x - mean.reshape(keepdims_shape)) / std.reshape(keepdims_shape)", "    x -= mean.reshape(keepdims_shape).astype(x.dtype); x_norm = x / std.reshape(keepdims_shape); ", ["C11"]),
 ("C12-train-not-recursing", "synapgrad/nn/modules.py", "        self.training = True\n        for m in self.submodules():\n            m.train()", "        self.training = True\n        for m in self.submodules():\n            m.training = True", ["C12"]),
 ("C13-counter-in-eval", "synapgrad/nn/layers.py", "        if self.training and self.track_running_stats:\n            if self.num_batches_tracked is not None:", "        if self.track_running_stats:\n            if self.num_batches_tracked is not None:", ["C13"]),
 ("C13-biased-running-var", "synapgrad/cpu_ops.py", "        unbiased_var = var * (n / (n - 1))", "        unbiased_var = var * (n / (n - 1)) if n < 6 else var", ["C13"]),
 ("C14-addmm-constant", "synapgrad/cpu_ops.py", "def addmm_forward(a:np.ndarray, b:np.ndarray, c:np.ndarray):\n    return a + (b @ c)", "def addmm_forward(a:np.ndarray, b:np.ndarray, c:np.ndarray):\n    return a + (b @ c) if a.ndim else 2 * a + (b @ c)", ["C14"]),
 ("C15-fan-swap", "synapgrad/nn/init.py", "    std = gain * math.sqrt(3.0 / float(fan[mode]))", "    std = gain * math.sqrt(3.0 / float(fan[1 - mode] if tensor.ndim > 3 else fan[mode]))", ["C15"]),
 ("C16-v2-lH-for-lW", "synapgrad/conv_tools.py", "            output[:, :, i*lW + j] = window.ravel().reshape(output[:, :, i*lW + j].shape)", "            output[:, :, i*lH + j if lH >= lW else i*lW + j] = window.ravel().reshape(output[:, :, i*lW + j].shape)", ["C16"]),
 ("C17-global-tensor-list", "synapgrad/tensor.py", "        self._initialized = True\n        \n    # **************************\n    # ******* Properties *******", "        self._initialized = True\n        if operation is not None and not req_grad: _history.append(self)\n        \n    # **************************\n    # ******* Properties *******", ["C17"]),
 ("C18-split-overlap", "synapgrad/nn/utils/data.py", "        train_val_indices, test_indices = indices[split:], indices[:split]", "        train_val_indices, test_indices = indices[split:], indices[:split + (1 if data_size > 30 and split else 0)]", ["C18"]),
 ("C19-dropout-own-rng", "synapgrad/nn/layers.py", "        random_data = np.random.rand(*x.shape)", "        random_data = np.random.default_rng().random(x.shape)", ["C19"]),
 ("C20-validation-without-eval", "synapgrad/nn/utils/train.py", "        \"\"\" Validate model with validation data \"\"\"\n        self.model.eval()", "        \"\"\" Validate model with validation data \"\"\"\n        if len(validation_loader) < 2: self.model.eval()", ["C20"]),
 ("C20-zero-grad-after-backward", "synapgrad/nn/utils/train.py", "            self.optimizer.zero_grad()\n            train_loss.backward()\n            self.optimizer.step()", "            train_loss.backward()\n            self.optimizer.zero_grad() if i == 2 else None\n            self.optimizer.step()\n            self.optimizer.zero_grad()", ["C20"]),
]


def sh(cmd, **kw):
    return subprocess.run(cmd, shell=True, capture_output=True, text=True, **kw)


def main():
    sel = sys.argv[1] if len(sys.argv) > 1 else ""
    rows = []
    for name, path, old, new, expect in BREAKS:
        if sel not in name or not expect:
            continue
        wt = tempfile.mkdtemp(prefix="own-", dir="/tmp")
        os.rmdir(wt)
        sh(f"git -C /repo worktree add --detach {wt} HEAD")
        try:
            f = os.path.join(wt, path)
            s = open(f).read()
            if s.count(old) != 1:
                rows.append((name, "ANCHOR-NOT-FOUND", "", ""))
                continue
            s = s.replace(old, new)
            if name == "C17-global-tensor-list":
                s = s.replace("gradient__ = True\nretain_grads__ = False", "gradient__ = True\nretain_grads__ = False\n_history = []")
            open(f, "w").write(s)
            suite = sh(f"cd {wt} && env -u SYNAPGRAD_VERIF PYTHONPATH={wt} /venv/bin/python -m pytest -q -p no:cacheprovider tests 2>&1 | tail -1").stdout.strip()
            res = []
            for pid in expect:
                r = sh(f"cd /verif && SYNAPGRAD_ROOT={wt} VERIF_NO_EVIDENCE=1 ./check {pid} --tier quick")
                first = [l for l in r.stdout.splitlines() if l.startswith("VIOLATION")]
                res.append(f"{pid}: rc={r.returncode} {first[0].split('# ')[-1][:110] if first else ''}")
            rows.append((name, suite, "; ".join(res), ""))
            print(name, "|", suite, "|", "; ".join(res), flush=True)
        finally:
            sh(f"git -C /repo worktree remove --force {wt}")
    with open("/verif/validation/own_breaks.md", "a") as f:
        for r in rows:
            f.write(f"| {r[0]} | {r[1]} | {r[2]} |\n")


if __name__ == "__main__":
    main()
