#!/usr/bin/env python3
"""Regenerates MANIFEST.json from the table below (python3 tools/gen_manifest.py)."""
import json, os, subprocess
HERE = os.path.dirname(os.path.dirname(os.path.abspath(__file__)))

# id -> (technique, level text, level note, design ref)
CHECKS = {
 "C01": ("runtime monitoring: finite-difference VJP oracle on the library's own float64 forward + subgradient oracle at ties + backward-trace / kernel-purity monitors, over enumerated argument grids",
         "Exploration: every op form of the tensor API is executed on the real code over an enumerated argument grid (all dims/tuples/keepdims, all source/destination pairs, index grammar with repeats, every broadcasting pattern, hostile upstream gradients) and each operand gradient is compared with an exact (affine ops) or Richardson finite-difference VJP. Held = no deviation on the cases listed in the evidence.",
         "Trusts NumPy float64 arithmetic and the FD oracle (harness/fd.py, tolerances 1e-9/1e-6 relative); reference derivative is that of the library's own forward (values are C05's business).", "DESIGN.md §3.3 O1, §4 C01"),
 "C02": ("runtime monitoring: finite-difference VJP oracle + subgradient conditions at relu zeros / pooling ties + stride-bounds sanitizer and backward trace, over geometry / mode / reduction grids",
         "Exploration: each nn op, layer and loss (functional and Module forms) runs on the real code over a grid of geometries, batch-norm modes, reductions and ranks; every differentiable input's gradient is compared with the FD VJP of the library's own forward.",
         "Trusts NumPy float64 and harness/fd.py; large operands are checked on 24 seeded coordinates + 4 directions; pooling ties judged by necessary subgradient conditions.", "DESIGN.md §4 C02"),
 "C03": ("runtime monitoring: random DAG programs, FD derivative of the whole composed function, construction-order metamorphic comparison, backward-trace monitor (exactly-once, consumer-before-operand)",
         "Exploration: thousands of structurally distinct random programs (fan-out, same tensor twice, diamonds, multi-output ops, mixed requires_grad) are differentiated by the real engine; leaf gradients are compared with finite differences of the whole program, across random construction orders, while every backward-function invocation is traced.",
         "Trusts harness/programs.py's NumPy interpreter only for generating shape-valid programs (the oracle is FD through the library's forward) and harness/monitors.py's graph walk.", "DESIGN.md §4 C03"),
 "C05": ("runtime monitoring: independent NumPy reference models under a value/raise x documented/undocumented verdict table, kernel argument-mutation sanitizer",
         "Exploration: forward of every tensor op, constructor, scalar operator form and iteration protocol on the real code, legal argument grids plus illegal variants, both dtypes, compared with reference semantics written from the NumPy/PyTorch docs using a forward-error bound.",
         "Trusts the reference functions in harness/catalog.py (naive, dim-normalising) and the table of documented forms transcribed from the docstrings.", "DESIGN.md §3.3 O2, §4 C05"),
 "C06": ("runtime monitoring: naive loop reference models of the PyTorch definitions under the verdict table + exact stride-bounds sanitizer on every as_strided view + crash containment",
         "Exploration: nn forward ops/layers/losses over the geometry grid (int/tuple/mixed forms, 'same'/'valid', stride None, empty outputs that must raise), position-coded inputs for unfold, all-negative inputs for max-pool padding, both dtypes.",
         "Trusts harness/ref/nnref.py (explicit loops, written from the PyTorch documentation).", "DESIGN.md §4 C06"),
 "C09": ("runtime monitoring: stable closed-form float64 value and gradient references (validated against 50-digit mpmath each run) on magnitude sweeps and wide-spread logits, finiteness monitor",
         "Exploration: the seven stability-critical ops, both forms and dtypes, on inputs up to |x|=1e4 including thresholds +-88/89/710 and rows whose probabilities underflow; values and gradients must be finite and within single precision of the exact result.",
         "Trusts the closed forms in props/c09_stability.py (cross-checked against mpmath in every run).", "DESIGN.md §4 C09"),
 "C18": ("runtime monitoring: exhaustive small-scope workload + index-arithmetic reference model on id-tagged samples",
         "Exploration: every (n, fractions, shuffle, batch size, transform) configuration of a stated finite grid is executed on the real functions and compared with an executable index model; unique sample ids make loss, duplication, mis-pairing and re-ordering directly observable. Held = held on that grid.",
         "Trusts NumPy and the 40-line model in props/c18_data.py; pkbar replaced by a silent stub if unimportable.", "DESIGN.md §4 C18"),
}
PENDING = {}

def main():
    props = [json.loads(l) for l in open(os.path.join(HERE, "properties.jsonl"))]
    fix_commits = []
    checks = []
    for p in props:
        pid = p["id"]
        if pid in CHECKS:
            tech, text, note, ref = CHECKS[pid]
            checks.append({
                "property_id": pid,
                "quick_cmd": f"./check {pid} --tier quick",
                "thorough_cmd": f"./check {pid} --tier thorough",
                "evidence_file": f"evidence/{pid}.json",
                "replay_cmd_template": f"./check {pid} --replay {{path}}",
                "engine": "harness",
                "level_claimed": {"category": "exploration", "text": text, "design_ref": ref},
                "level_note": note,
                "technique": tech,
            })
    na = [{"property_id": p["id"], "reason": PENDING.get(p["id"], "check not built yet in this revision of /verif (planned: DESIGN.md §4); nothing is claimed for it")}
          for p in props if p["id"] not in CHECKS]
    m = {
        "version": 1,
        "setup_cmd": "SYNAPGRAD_VERIF=1 /venv/bin/python -B -m harness.selftest",
        "hooks": {
            "guard": "SYNAPGRAD_VERIF",
            "enable": "No hook code lives in /repo: every monitor is attached from outside by /verif/harness (wrapping module attributes and class methods at worker start-up) and only when SYNAPGRAD_VERIF=1, which ./check sets for its workers. /repo is imported from its working tree by /venv/bin/python; nothing is built.",
            "baseline_off_cmd": "cd /repo && env -u SYNAPGRAD_VERIF /venv/bin/python -m pytest -ra -q -p no:cacheprovider --timeout=900 --continue-on-collection-errors",
            "source_commits": [],
            "add_only": True,
        },
        "engines": [{"name": "harness", "path": "harness/", "serves_properties": sorted(CHECKS),
                     "kind_free_text": "runtime monitoring: sharded subprocess workers run seeded/enumerated workloads against /repo's working tree with externally attached monitors (kernel/stride sanitizers, backward trace, grad shape/dtype, purity snapshots, grad-mode, RNG tap) and executable reference models as oracles"}],
        "checks": checks,
        "not_applicable": na,
        "notes": "All checks: exit 0 held on everything observed; exit 1 + VIOLATION line; exit 3 + INCONCLUSIVE line when a deciding monitor saw no events, a worker hit its watchdog or too many samples were undecidable (never folded into held). Genuine defects repaired by 'fix:' commits in /repo or listed in known_findings.json (see DESIGN.md §5).",
    }
    with open(os.path.join(HERE, "MANIFEST.json"), "w") as f:
        json.dump(m, f, indent=1)
    print("claimed", sorted(CHECKS), "n/a", len(na))

if __name__ == "__main__":
    main()
