#!/usr/bin/env python3
"""Regenerates MANIFEST.json from the table below (python3 tools/gen_manifest.py)."""
import json, os, subprocess
HERE = os.path.dirname(os.path.dirname(os.path.abspath(__file__)))

# id -> (technique, level text, level note, design ref)
CHECKS = {
 "C18": ("runtime monitoring: exhaustive small-scope workload + index-arithmetic reference model on id-tagged samples",
         "Exploration: every (n, fractions, shuffle, batch size, transform) configuration of a stated finite grid is executed on the real functions and compared with an executable index model; unique sample ids make loss, duplication, mis-pairing and re-ordering directly observable. Held = held on that grid.",
         "Trusts NumPy and the 40-line model in props/c18_data.py; pkbar replaced by a silent stub if unimportable.", "DESIGN.md §4 C18"),
}
PENDING = {}

def main():
    props = [json.loads(l) for l in open(os.path.join(HERE, "properties.jsonl"))]
    fix_commits = []
    checks = []
    for p in props:
        pid = p["id"]
        if pid in CHECKS:
            tech, text, note, ref = CHECKS[pid]
            checks.append({
                "property_id": pid,
                "quick_cmd": f"./check {pid} --tier quick",
                "thorough_cmd": f"./check {pid} --tier thorough",
                "evidence_file": f"evidence/{pid}.json",
                "replay_cmd_template": f"./check {pid} --replay {{path}}",
                "engine": "harness",
                "level_claimed": {"category": "exploration", "text": text, "design_ref": ref},
                "level_note": note,
                "technique": tech,
            })
    na = [{"property_id": p["id"], "reason": PENDING.get(p["id"], "check not built yet in this revision of /verif (planned: DESIGN.md §4); nothing is claimed for it")}
          for p in props if p["id"] not in CHECKS]
    m = {
        "version": 1,
        "setup_cmd": "/venv/bin/python -B -m harness.selftest",
        "hooks": {
            "guard": "SYNAPGRAD_VERIF",
            "enable": "No hook code lives in /repo: every monitor is attached from outside by /verif/harness (wrapping module attributes and class methods at worker start-up) and only when SYNAPGRAD_VERIF=1, which ./check sets for its workers. /repo is imported from its working tree by /venv/bin/python; nothing is built.",
            "baseline_off_cmd": "cd /repo && env -u SYNAPGRAD_VERIF /venv/bin/python -m pytest -ra -q -p no:cacheprovider --timeout=900 --continue-on-collection-errors",
            "source_commits": [],
            "add_only": True,
        },
        "engines": [{"name": "harness", "path": "harness/", "serves_properties": sorted(CHECKS),
                     "kind_free_text": "runtime monitoring: sharded subprocess workers run seeded/enumerated workloads against /repo's working tree with externally attached monitors (kernel/stride sanitizers, backward trace, grad shape/dtype, purity snapshots, grad-mode, RNG tap) and executable reference models as oracles"}],
        "checks": checks,
        "not_applicable": na,
        "notes": "All checks: exit 0 held on everything observed; exit 1 + VIOLATION line; exit 3 + INCONCLUSIVE line when a deciding monitor saw no events, a worker hit its watchdog or too many samples were undecidable (never folded into held). Genuine defects repaired by 'fix:' commits in /repo or listed in known_findings.json (see DESIGN.md §5).",
    }
    with open(os.path.join(HERE, "MANIFEST.json"), "w") as f:
        json.dump(m, f, indent=1)
    print("claimed", sorted(CHECKS), "n/a", len(na))

if __name__ == "__main__":
    main()
