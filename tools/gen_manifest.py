#!/usr/bin/env python3
"""Regenerates MANIFEST.json from the table below (python3 tools/gen_manifest.py)."""
import json, os, subprocess
HERE = os.path.dirname(os.path.dirname(os.path.abspath(__file__)))

# id -> (technique, level text, level note, design ref)
CHECKS = {
 "C01": ("runtime monitoring: finite-difference VJP oracle on the library's own float64 forward + subgradient oracle at ties + backward-trace / kernel-purity monitors, over enumerated argument grids",
         "Exploration: every op form of the tensor API is executed on the real code over an enumerated argument grid (all dims/tuples/keepdims, all source/destination pairs, index grammar with repeats, every broadcasting pattern, hostile upstream gradients) and each operand gradient is compared with an exact (affine ops) or Richardson finite-difference VJP. Held = no deviation on the cases listed in the evidence.",
         "Trusts NumPy float64 arithmetic and the FD oracle (harness/fd.py, tolerances 1e-9/1e-6 relative); reference derivative is that of the library's own forward (values are C05's business).", "DESIGN.md §3.3 O1, §4 C01"),
 "C02": ("runtime monitoring: finite-difference VJP oracle + subgradient conditions at relu zeros / pooling ties + stride-bounds sanitizer and backward trace, over geometry / mode / reduction grids",
         "Exploration: each nn op, layer and loss (functional and Module forms) runs on the real code over a grid of geometries, batch-norm modes, reductions and ranks; every differentiable input's gradient is compared with the FD VJP of the library's own forward.",
         "Trusts NumPy float64 and harness/fd.py; large operands are checked on 24 seeded coordinates + 4 directions; pooling ties judged by necessary subgradient conditions.", "DESIGN.md §4 C02"),
 "C03": ("runtime monitoring: random DAG programs, FD derivative of the whole composed function, construction-order metamorphic comparison, backward-trace monitor (exactly-once, consumer-before-operand)",
         "Exploration: thousands of structurally distinct random programs (fan-out, same tensor twice, diamonds, multi-output ops, mixed requires_grad) are differentiated by the real engine; leaf gradients are compared with finite differences of the whole program, across random construction orders, while every backward-function invocation is traced.",
         "Trusts harness/programs.py's NumPy interpreter only for generating shape-valid programs (the oracle is FD through the library's forward) and harness/monitors.py's graph walk.", "DESIGN.md §4 C03"),
 "C05": ("runtime monitoring: independent NumPy reference models under a value/raise x documented/undocumented verdict table, kernel argument-mutation sanitizer",
         "Exploration: forward of every tensor op, constructor, scalar operator form and iteration protocol on the real code, legal argument grids plus illegal variants, both dtypes, compared with reference semantics written from the NumPy/PyTorch docs using a forward-error bound.",
         "Trusts the reference functions in harness/catalog.py (naive, dim-normalising) and the table of documented forms transcribed from the docstrings.", "DESIGN.md §3.3 O2, §4 C05"),
 "C06": ("runtime monitoring: naive loop reference models of the PyTorch definitions under the verdict table + exact stride-bounds sanitizer on every as_strided view + crash containment",
         "Exploration: nn forward ops/layers/losses over the geometry grid (int/tuple/mixed forms, 'same'/'valid', stride None, empty outputs that must raise), position-coded inputs for unfold, all-negative inputs for max-pool padding, both dtypes.",
         "Trusts harness/ref/nnref.py (explicit loops, written from the PyTorch documentation).", "DESIGN.md §4 C06"),
 "C09": ("runtime monitoring: stable closed-form float64 value and gradient references (validated against 50-digit mpmath each run) on magnitude sweeps and wide-spread logits, finiteness monitor; every fourth case runs under NumPy's own error settings after legal overflowing calls with NumPy's process-wide error state compared before / after; the result tensor is re-read after backward",
         "Exploration: the seven stability-critical ops, both forms and dtypes, on inputs up to |x|=1e4 including thresholds +-88/89/710 and rows whose probabilities underflow; values and gradients must be finite and within single precision of the exact result.",
         "Trusts the closed forms in props/c09_stability.py (cross-checked against mpmath in every run).", "DESIGN.md §4 C09"),
 "C18": ("runtime monitoring: exhaustive small-scope workload + index-arithmetic reference model on id-tagged samples",
         "Exploration: every (n, fractions, shuffle, batch size, transform) configuration of a stated finite grid is executed on the real functions and compared with an executable index model; unique sample ids make loss, duplication, mis-pairing and re-ordering directly observable. Held = held on that grid.",
         "Trusts NumPy and the 40-line model in props/c18_data.py; pkbar replaced by a silent stub if unimportable.", "DESIGN.md §4 C18"),
}

CHECKS.update({
 "C04": ("runtime monitoring: event histories over shared leaves checked after every event against a ledger of finite-difference contributions from fresh re-executions; exact (tolerance-free) power-of-two ledgers; byte snapshots of everything unreachable from each root, also after a backward through a deep copy; backward-trace monitor",
         "Exploration: random histories (build / backward from any root or interior node / repeat / retain_grad / retain_grads / three reset paths / reuse of earlier results / backward on a leaf) plus the named scenarios run on the real engine; every leaf's .grad is compared with the sum of independently computed contributions after each event.",
         "Trusts harness/fd.py and the global-program bookkeeping in props/c04_accumulation.py; retained non-leaf .grad values are not asserted.", "DESIGN.md §4 C04"),
 "C07": ("runtime monitoring: stack model of the two grad-mode flags + behavioural probes after every context enter/exit (incl. exception exits, pre-constructed and re-entered context objects) + grad-mode and release-discipline monitors",
         "Exploration: random nested programs over no_grad / retain_grads to depth 6 with probes of requires_grad propagation, grad_fn/is_leaf, backward refusal, setter and retain_grad/numpy/detach guards, and leaf-keeps / intermediate-releases behaviour.",
         "Trusts the 20-line stack model; retain_grads mixed build/differentiate combinations are not asserted.", "DESIGN.md §4 C07"),
 "C08": ("runtime monitoring: histories of backward / zero_grad / step / freeze events compared step by step with float64 reference implementations of the torch.optim algorithms; identity, dtype, shape, bystander and frozen-parameter byte checks",
         "Exploration: thousands of histories over the hyper-parameter grid on 1-4 parameters (0-d, size-1, float32/float64) with gradients produced by the real engine.",
         "Trusts the reference optimizers in props/c08_optimizers.py; for SGD maximize+weight_decay both the documented pseudo-code and torch's implementation are accepted; bias-correction after skipped steps is not asserted.", "DESIGN.md §4 C08"),
 "C10": ("runtime monitoring: direct dtype/shape contracts on every op form in both dtypes, float32-vs-float64 forward-error comparison, float32 gradients compared with the float64 gradients of the same function, grad shape/dtype monitor walking the whole graph after each backward",
         "Exploration: both op catalogues x dtypes x scalar operands x broadcasting x 0-d results x upstream-gradient dtype, incl. layers with default float32 parameters fed float64 inputs.",
         "Trusts NumPy dtype semantics and the forward-error bound.", "DESIGN.md §4 C10"),
 "C11": ("runtime monitoring: byte snapshots of operands / targets / caller's gradient / bystanders and tensor-level snapshots (array held, dtype) around forward, backward, follow-up events, repeats and later calls on other values; kernel argument-mutation sanitizer naming the kernel; digest equality of repeats; results re-read after backward, seeds of another shape, functional batch norm with half-specified statistics, operands on the boundary of the domain",
         "Exploration: both catalogues with operands stored as plain, transposed, strided, reshaped and shared-base views, random DAG programs with bystander graphs, and the documented mutators.",
         "Aliasing without a write is not reported; bit-identical repeats are asserted within one process with BLAS pinned to one thread.", "DESIGN.md §4 C11"),
 "C12": ("runtime monitoring: random module-tree construction and action programs compared after every step with a plain-Python registry-tree model; tagging modules observe Sequential order",
         "Exploration: tens of thousands of trees (attribute assignment, explicit registration, Sequential positional/OrderedDict/empty, shared modules and parameters, re-assignment to module/parameter/None/value) with train/eval/freeze/unfreeze/zero_grad on any node.",
         "Trusts the model in props/c12_modules.py; order after same-kind re-assignment is relaxed.", "DESIGN.md §4 C12"),
 "C13": ("runtime monitoring: BatchNorm train/eval/forward/perturb histories against an executable model of the PyTorch rules + digest equality of eval calls; Dropout statistics in 6-sigma bands, mask independence and gradient-through-the-same-mask checks",
         "Exploration: histories over momentum {0.1,0.5,1,None} x affine x track_running_stats x ranks x dtypes; dropout p in {0,...,1} with n >= 40000 per case.",
         "Trusts harness/ref/nnref.batch_norm and 6-sigma statistics (false alarm < 2e-9 per test).", "DESIGN.md §4 C13"),
 "C14": ("runtime monitoring: metamorphic identities - both sides computed by the library from independent leaves, values and every operand gradient compared",
         "Exploration: the sixteen documented identities over geometry / dim / reduction grids with random operands and upstream gradients.",
         "Both sides run library code: a defect common to both is invisible here (C01/C02/C05/C06 cover each side against independent references).", "DESIGN.md §4 C14"),
 "C15": ("runtime monitoring: statistical oracle (6-sigma bands on mean/std/shape, bound tests) on the real initialisers + exact tables for gains and fans + identity/dtype/shape/flag contracts",
         "Exploration: nine initialisers x shapes of rank 2-5 with >= 20000 elements x gains x modes x nonlinearities x slopes x dtypes; fresh layer parameters pooled over constructions.",
         "Trusts the documented formulas transcribed in props/c15_init.py; failing bands are re-sampled with 4x n before being reported.", "DESIGN.md §4 C15"),
 "C16": ("runtime monitoring: cross-variant equality (bit-exact im2col, 1e-12 col2im), adjoint identity on random x/y, multiplicity by counting loops, loop reference for the layout, exact stride-bounds sanitizer, crash containment",
         "Exploration: geometry grid enumerated per axis (thorough ~88k geometry cases), both layouts, pad values, int/tuple/mixed forms, empty geometries.",
         "Trusts harness/ref/nnref.unfold/fold.", "DESIGN.md §4 C16"),
 "C17": ("runtime monitoring: backward-trace exactly-once/order monitor on chains up to 2e5 ops at the default recursion limit, Python-call counts (sys.setprofile) at N and 2N, library source lines executed by the sweep (sys.settrace) on ladders of reused intermediates, CPU time at 1e5/4e5 ops in the thorough tier only, live-tensor registry sampled at quiescent points of untracked loops, weak references; rotating op catalogue in untracked loops (mixed and every op alone) judged on live tensors and traced memory (tracemalloc); library source lines executed by a second sweep with all gradients retained; CPU-time ratio probe reproduced three times",
         "Exploration (bounded progress): stated sizes only - chains 1e3..2e5, wide 2000-term graphs, depth-60 ladders, untracked loops up to 1e5 updates.",
         "Linearity decided on counted calls, never on wall-clock; memory decided on live Tensor objects.", "DESIGN.md §4 C17"),
 "C19": ("runtime monitoring: SHA-256 digests of every produced array across >= 6 fresh processes (PYTHONHASHSEED 0/1/4242/random x allocation-layout shifts) and 2-3 in-process repeats; RNG tap on generator constructors called from library code; one graph differentiated four times inside each run (bit-identical gradients per call)",
         "Exploration: programs over all random-consuming APIs, 3-10 training steps with each optimizer, and unseeded DAG programs with 40-term fan-in.",
         "Same machine, BLAS pinned to one thread.", "DESIGN.md §4 C19"),
 "C20": ("runtime monitoring: trainer trace (optimizer.step/zero_grad, train/eval, forward, loss, backward with per-event training flags, behaviourally probed gradient mode and parameter/buffer digests) checked offline against the grammar of the statement; history and accuracies recomputed from recorded batches",
         "Exploration: Trainer.fit / test over epochs x batches x validation x evaluator x three label modes x optimizers x callbacks on models with Dropout and BatchNorm.",
         "pkbar replaced by a silent stub if unimportable; batch sizes >= 2.", "DESIGN.md §4 C20"),
})
PENDING = {}

def main():
    props = [json.loads(l) for l in open(os.path.join(HERE, "properties.jsonl"))]
    fix_commits = []
    checks = []
    for p in props:
        pid = p["id"]
        if pid in CHECKS:
            tech, text, note, ref = CHECKS[pid]
            checks.append({
                "property_id": pid,
                "quick_cmd": f"./check {pid} --tier quick",
                "thorough_cmd": f"./check {pid} --tier thorough",
                "evidence_file": f"evidence/{pid}.json",
                "replay_cmd_template": f"./check {pid} --replay {{path}}",
                "engine": "harness",
                "level_claimed": {"category": "exploration", "text": text, "design_ref": ref},
                "level_note": note,
                "technique": tech,
            })
    na = [{"property_id": p["id"], "reason": PENDING.get(p["id"], "check not built yet in this revision of /verif (planned: DESIGN.md §4); nothing is claimed for it")}
          for p in props if p["id"] not in CHECKS]
    m = {
        "version": 1,
        "setup_cmd": "SYNAPGRAD_VERIF=1 /venv/bin/python -B -m harness.selftest",
        "hooks": {
            "guard": "SYNAPGRAD_VERIF",
            "enable": "No hook code lives in /repo: every monitor is attached from outside by /verif/harness (wrapping module attributes and class methods at worker start-up) and only when SYNAPGRAD_VERIF=1, which ./check sets for its workers. /repo is imported from its working tree by /venv/bin/python; nothing is built.",
            "baseline_off_cmd": "cd /repo && env -u SYNAPGRAD_VERIF /venv/bin/python -m pytest -ra -q -p no:cacheprovider --timeout=900 --continue-on-collection-errors",
            "source_commits": [],
            "add_only": True,
        },
        "engines": [{"name": "harness", "path": "harness/", "serves_properties": sorted(CHECKS),
                     "kind_free_text": "runtime monitoring: sharded subprocess workers run seeded/enumerated workloads against /repo's working tree with externally attached monitors (kernel/stride sanitizers, backward trace, grad shape/dtype, purity snapshots, grad-mode, RNG tap) and executable reference models as oracles"}],
        "checks": checks,
        "not_applicable": na,
        "notes": "All checks: exit 0 held on everything observed; exit 1 + VIOLATION line; exit 3 + INCONCLUSIVE line when a deciding monitor saw no events, a worker hit its watchdog or too many samples were undecidable (never folded into held). Genuine defects repaired by 'fix:' commits in /repo or listed in known_findings.json (see DESIGN.md §5).",
    }
    with open(os.path.join(HERE, "MANIFEST.json"), "w") as f:
        json.dump(m, f, indent=1)
    print("claimed", sorted(CHECKS), "n/a", len(na))

if __name__ == "__main__":
    main()
