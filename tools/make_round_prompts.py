#!/usr/bin/env python3
"""tools/make_round_prompts.py <round> <directions-file>
Writes seeded/prompts/round<round>/<PID>.prompt.txt for every property: the property text (nothing else from /verif), the working
rules for the sub-agent, the directions for this round and one-line summaries of all earlier kept changes for that property.
Also creates the scratch worktrees /tmp/seed<round>/<PID> of /repo HEAD (outside /repo and /verif)."""
import json, os, subprocess, sys, glob

R = int(sys.argv[1])
DIRECTIONS = open(sys.argv[2]).read().strip()
V = os.path.dirname(os.path.dirname(os.path.abspath(__file__)))
props = [json.loads(l) for l in open(os.path.join(V, 'properties.jsonl'))]
out = os.path.join(V, 'seeded', 'prompts', 'round%d' % R)
os.makedirs(out, exist_ok=True)
base = '/tmp/seed%d' % R
os.makedirs(base, exist_ok=True)

TEMPLATE = open(os.path.join(V, 'tools', 'seed_prompt_template.txt')).read()

def key(d):
    n = os.path.basename(d).split('-')[1]
    r = 1 if n.startswith('m') else int(n[1:n.index('m')])
    return (r, int(n[n.index('m') + 1:]))

for p in props:
    pid = p['id']
    wt = '%s/%s' % (base, pid)
    if not os.path.isdir(wt):
        subprocess.run(['git', '-C', '/repo', 'worktree', 'add', '--detach', wt, 'HEAD'], check=True,
                       stdout=subprocess.DEVNULL, stderr=subprocess.DEVNULL)
    earlier = []
    for d in sorted(glob.glob(os.path.join(V, 'seeded', pid + '-*m[0-9]')), key=key):
        name = os.path.basename(d).split('-')[1]
        try:
            notes = ' '.join(open(os.path.join(d, 'notes.txt')).read().split())
        except OSError:
            notes = ''
        earlier.append('- %s: %s' % (name, notes[:420]))
    text = []
    text.append('%s: %s' % (pid, p.get('title', '')))
    text.append('')
    text.append('STATEMENT: ' + p['statement']); text.append('')
    text.append('QUANTIFIED OVER: ' + p['quantifier']['text']); text.append('')
    text.append('WHY THE EXISTING TESTS CANNOT SETTLE IT: ' + p['why_tests_cant']); text.append('')
    text.append('CODE ANCHORS: ' + json.dumps(p['anchors'].get('files', p['anchors']))); text.append('')
    body = TEMPLATE.replace('@WT@', wt).replace('@PID@', pid).replace('@PROPERTY@', '\n'.join(text)) \
        .replace('@ROUND@', str(R)).replace('@N_EARLIER@', str(len(earlier))).replace('@DIRECTIONS@', DIRECTIONS) \
        .replace('@EARLIER@', '\n'.join(earlier))
    open(os.path.join(out, pid + '.prompt.txt'), 'w').write(body)
print('wrote', len(props), 'prompts to', out)
