#!/bin/sh
# (re-)evaluates every kept seeded change with the current harness: tools/eval_all_seeded.sh [parallelism]
ls -d /verif/seeded/C*-*m[0-9] | xargs -n1 basename | xargs -P ${1:-4} -I{} sh -c 'SKIP_SUITE=${SKIP_SUITE:-} /verif/tools/eval_mutant.sh /verif/seeded/{}/patch.diff /verif/seeded/{}/demo.py > /verif/seeded/{}/eval.txt 2>&1'
