#!/bin/sh
# copies every sub-agent mutant into /verif/seeded/<id>/ and evaluates it (demo clean/patched, suite, all quick checks)
for d in /tmp/seed/C*/mutants; do
  P=$(basename $(dirname $d))
  for k in 1 2 3; do
    [ -f $d/m$k.diff ] || continue
    ID=$P-m$k
    mkdir -p /verif/seeded/$ID
    cp $d/m$k.diff /verif/seeded/$ID/patch.diff
    cp $d/m${k}_demo.py /verif/seeded/$ID/demo.py 2>/dev/null
    cp $d/m$k.txt /verif/seeded/$ID/notes.txt 2>/dev/null
  done
done
ls /verif/seeded | xargs -P 3 -I{} sh -c '[ -f /verif/seeded/{}/eval.txt ] || /verif/tools/eval_mutant.sh /verif/seeded/{}/patch.diff /verif/seeded/{}/demo.py > /verif/seeded/{}/eval.txt 2>&1'
