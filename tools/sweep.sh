#!/bin/sh
# tools/sweep.sh <tier> <seed>...   - every check at the given tier for each seed, on the unchanged tree; prints one line per run.
# Used to look for false alarms (anything but rc=0 here is a defect of the machinery or of the library and is triaged by hand).
TIER=$1; shift
cd "$(dirname "$0")/.." || exit 2
for S in "$@"; do
  for P in C01 C02 C03 C04 C05 C06 C07 C08 C09 C10 C11 C12 C13 C14 C15 C16 C17 C18 C19 C20; do
    T0=$(date +%s)
    OUT=$(VERIF_SEED=$S VERIF_NO_EVIDENCE=1 ./check $P --tier $TIER 2>&1); RC=$?
    echo "seed=$S $P rc=$RC $(( $(date +%s) - T0 ))s $(echo "$OUT" | grep -E '^(VIOLATION|INCONCLUSIVE)' | head -3 | cut -c1-300 | tr '\n' '|')"
  done
done
