#!/bin/sh
# tools/intake_round.sh <round> [parallelism]
# Copies the changes the sub-agents of a round left in /tmp/seed<round>/<PID>/mutants into seeded/<PID>-r<round>m<k>/ and runs the first
# pass on each with the harness as it is now: demo on the clean and on the patched tree, repository suite on the patched tree, quick tier of
# all twenty checks (tools/eval_mutant.sh, scratch worktree, never /repo).  Result: seeded/<id>/eval_first_pass.txt
R=$1; J=${2:-5}
cd "$(dirname "$0")/.." || exit 2
for d in /tmp/seed$R/C*/mutants; do
  P=$(basename $(dirname $d))
  for k in 1 2 3; do
    [ -f $d/m$k.diff ] || continue
    ID=$P-r${R}m$k
    mkdir -p seeded/$ID
    cp $d/m$k.diff seeded/$ID/patch.diff
    cp $d/m${k}_demo.py seeded/$ID/demo.py 2>/dev/null
    cp $d/m$k.txt seeded/$ID/notes.txt 2>/dev/null
  done
done
ls -d seeded/C*-r${R}m[0-9] | xargs -n1 basename | xargs -P $J -I{} sh -c '[ -s seeded/{}/eval_first_pass.txt ] || tools/eval_mutant.sh seeded/{}/patch.diff seeded/{}/demo.py > seeded/{}/eval_first_pass.txt 2>&1'
