#!/bin/sh
# tools/intake_round.sh <round> [only-these-PIDs...]
# Copies the changes the sub-agents of a round left in /tmp/seed<round>/<PID>/mutants into seeded/<PID>-r<round>m<k>/ and runs the first pass on
# each: demo on the clean and on the patched tree + quick tier of all twenty checks (tools/eval_mutant.sh, scratch worktree, never /repo) with the
# harness snapshot named by VERIF_DIR (frozen before the round's results were read), and - separately, two BLAS threads - the repository suite
# on the patched tree (tools/suite_mutant.sh).  Results: seeded/<id>/eval_first_pass.txt, seeded/<id>/suite.txt.  Safe to re-run (skips what is complete).
R=$1; shift
cd "$(dirname "$0")/.." || exit 2
PIDS=${*:-$(ls /tmp/seed$R)}
IDS=""
for P in $PIDS; do
  d=/tmp/seed$R/$P/mutants
  for k in 1 2 3; do
    [ -f $d/m$k.diff ] && [ -f $d/m${k}_demo.py ] || continue
    ID=$P-r${R}m$k
    mkdir -p seeded/$ID
    cp $d/m$k.diff seeded/$ID/patch.diff; cp $d/m${k}_demo.py seeded/$ID/demo.py; cp $d/m$k.txt seeded/$ID/notes.txt 2>/dev/null
    IDS="$IDS $ID"
  done
done
( for i in $IDS; do echo $i; done | xargs -P ${JS:-3} -I{} sh -c 'grep -q passed seeded/{}/suite.txt 2>/dev/null || tools/suite_mutant.sh seeded/{}/patch.diff > seeded/{}/suite.txt 2>&1' ) &
for i in $IDS; do echo $i; done | SKIP_SUITE=1 xargs -P ${JC:-3} -I{} sh -c '[ "$(grep -c "^C[0-9]* rc=" seeded/{}/eval_first_pass.txt 2>/dev/null)" = 20 ] || tools/eval_mutant.sh seeded/{}/patch.diff seeded/{}/demo.py > seeded/{}/eval_first_pass.txt 2>&1'
wait
echo INTAKE-DONE $IDS
