#!/bin/sh
# tools/check_at_rev.sh <rev> <PID> [tier] : run a check against a scratch worktree of /repo at <rev> (evidence not written)
REV=$1; PID=$2; TIER=${3:-quick}
WT=/tmp/rev-$$
git -C /repo worktree add --detach "$WT" "$REV" >/dev/null 2>&1 || exit 2
cd /verif && SYNAPGRAD_ROOT="$WT" VERIF_NO_EVIDENCE=1 ./check "$PID" --tier "$TIER"
RC=$?
git -C /repo worktree remove --force "$WT"
exit $RC
