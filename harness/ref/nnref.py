"""Independent float64 NumPy reference models of the nn operations, written from the PyTorch documentation.
Deliberately naive (explicit loops over output positions) so that they share no structure with the implementation."""
import math
import numpy as np


class Reject(Exception):
    pass


SELU_ALPHA = 1.6732632423543772848170429916717
SELU_SCALE = 1.0507009873554804934193349852946


def relu(x):
    return np.where(x > 0, x, 0.0)


def leaky_relu(x, slope):
    return np.where(x > 0, x, slope * x)


def selu(x):
    return SELU_SCALE * np.where(x > 0, x, SELU_ALPHA * np.expm1(np.minimum(x, 0)))


def sigmoid(x):
    e = np.exp(-np.abs(x))
    return np.where(x >= 0, 1.0 / (1.0 + e), e / (1.0 + e))


def log_softmax(x, dim):
    if x.ndim == 0:
        raise Reject("0-d")
    if dim < -x.ndim or dim >= x.ndim:
        raise Reject("dim")
    m = np.max(x, axis=dim, keepdims=True)
    s = x - m
    return s - np.log(np.sum(np.exp(s), axis=dim, keepdims=True))


def softmax(x, dim):
    return np.exp(log_softmax(x, dim))


def reduce_loss(l, reduction):
    if reduction == "mean":
        return np.mean(l)
    if reduction == "sum":
        return np.sum(l)
    return l


def mse(p, t):
    if p.shape != t.shape:
        raise Reject("shape")
    return (p - t) ** 2


def nll(logp, t):
    if logp.ndim != 2 or t.ndim != 1 or len(t) != len(logp) or np.any(t < 0) or np.any(t >= logp.shape[1]):
        raise Reject("nll shapes")
    return np.array([-logp[i, int(t[i])] for i in range(len(t))])


def bce(p, t):
    if p.shape != t.shape:
        raise Reject("shape")
    with np.errstate(divide="ignore"):
        lp = np.maximum(np.log(p), -100.0)
        lq = np.maximum(np.log1p(-p), -100.0)
    return -(t * lp + (1 - t) * lq)


def bce_logits(x, t):
    if x.shape != t.shape:
        raise Reject("shape")
    return np.maximum(x, 0) - x * t + np.log1p(np.exp(-np.abs(x)))


def cross_entropy(x, t):
    if x.ndim != 2:
        raise Reject("ce shapes")
    return nll(log_softmax(x, 1), t)


def linear(x, w, b):
    if x.ndim < 1 or w.ndim != 2 or x.shape[-1] != w.shape[1]:
        raise Reject("linear shapes")
    out = np.zeros(x.shape[:-1] + (w.shape[0],))
    for idx in np.ndindex(*x.shape[:-1]):
        for o in range(w.shape[0]):
            out[idx + (o,)] = float(np.dot(x[idx], w[o])) + (float(b[o]) if b is not None else 0.0)
    return out


def pair(v, n=2):
    if isinstance(v, (int, np.integer)):
        return (int(v),) * n
    v = tuple(int(i) for i in v)
    if len(v) == 1:
        return v * n
    if len(v) != n:
        raise Reject("tuple length")
    return v


def out_len(L, k, s, p, d):
    if k <= 0 or s <= 0 or d <= 0 or p < 0:
        raise Reject("geometry")
    n = (L + 2 * p - d * (k - 1) - 1) // s + 1
    if n <= 0:
        raise Reject("empty output")
    return n


def pad_nd(x, pads, value):
    """x: (N,C,*spatial); pads per spatial axis"""
    shape = list(x.shape)
    for i, p in enumerate(pads):
        shape[2 + i] += 2 * p
    out = np.full(shape, value, dtype=np.float64)
    sl = [slice(None), slice(None)] + [slice(p, p + x.shape[2 + i]) for i, p in enumerate(pads)]
    out[tuple(sl)] = x
    return out


def conv_nd(x, w, b, stride, padding, dilation, nd):
    if x.ndim != nd + 2 or w.ndim != nd + 2 or x.shape[1] != w.shape[1]:
        raise Reject("conv shapes")
    s, p, d = pair(stride, nd), pair(padding, nd), pair(dilation, nd)
    k = w.shape[2:]
    outs = [out_len(x.shape[2 + i], k[i], s[i], p[i], d[i]) for i in range(nd)]
    xp = pad_nd(x, p, 0.0)
    N, Co = x.shape[0], w.shape[0]
    out = np.zeros((N, Co) + tuple(outs))
    for n in range(N):
        for co in range(Co):
            for pos in np.ndindex(*outs):
                acc = 0.0 if b is None else float(b[co])
                for ci in range(x.shape[1]):
                    for kk in np.ndindex(*k):
                        idx = tuple(pos[i] * s[i] + kk[i] * d[i] for i in range(nd))
                        acc += xp[(n, ci) + idx] * w[(co, ci) + kk]
                out[(n, co) + pos] = acc
    return out


def pool_nd(x, kernel, stride, padding, dilation, nd, kind):
    if x.ndim != nd + 2:
        raise Reject("pool rank")
    k = pair(kernel, nd)
    s = pair(stride if stride is not None else kernel, nd)
    p, d = pair(padding, nd), pair(dilation, nd)
    outs = [out_len(x.shape[2 + i], k[i], s[i], p[i], d[i]) for i in range(nd)]
    xp = pad_nd(x, p, -np.inf if kind == "max" else 0.0)
    out = np.zeros(x.shape[:2] + tuple(outs))
    for n in range(x.shape[0]):
        for c in range(x.shape[1]):
            for pos in np.ndindex(*outs):
                vals = [xp[(n, c) + tuple(pos[i] * s[i] + kk[i] * d[i] for i in range(nd))] for kk in np.ndindex(*k)]
                out[(n, c) + pos] = max(vals) if kind == "max" else sum(vals) / len(vals)
    return out


def unfold(x, kernel, dilation, stride, padding, pad_value=0.0):
    if x.ndim != 4:
        raise Reject("unfold rank")
    k, d, s, p = pair(kernel), pair(dilation), pair(stride), pair(padding)
    N, C, H, W = x.shape
    lH, lW = out_len(H, k[0], s[0], p[0], d[0]), out_len(W, k[1], s[1], p[1], d[1])
    xp = pad_nd(x, p, pad_value)
    out = np.zeros((N, C * k[0] * k[1], lH * lW))
    for n in range(N):
        for c in range(C):
            for ki in range(k[0]):
                for kj in range(k[1]):
                    row = (c * k[0] + ki) * k[1] + kj          # channel-major kernel layout
                    for i in range(lH):
                        for j in range(lW):
                            out[n, row, i * lW + j] = xp[n, c, i * s[0] + ki * d[0], j * s[1] + kj * d[1]]   # row-major blocks
    return out


def fold(cols, output_size, kernel, dilation, stride, padding):
    if cols.ndim != 3:
        raise Reject("fold rank")
    k, d, s, p = pair(kernel), pair(dilation), pair(stride), pair(padding)
    H, W = pair(output_size)
    N, CKK, L = cols.shape
    if CKK % (k[0] * k[1]):
        raise Reject("channels")
    C = CKK // (k[0] * k[1])
    lH, lW = out_len(H, k[0], s[0], p[0], d[0]), out_len(W, k[1], s[1], p[1], d[1])
    if lH * lW != L:
        raise Reject("L mismatch")
    out = np.zeros((N, C, H + 2 * p[0], W + 2 * p[1]))
    for n in range(N):
        for c in range(C):
            for ki in range(k[0]):
                for kj in range(k[1]):
                    row = (c * k[0] + ki) * k[1] + kj
                    for i in range(lH):
                        for j in range(lW):
                            out[n, c, i * s[0] + ki * d[0], j * s[1] + kj * d[1]] += cols[n, row, i * lW + j]
    return out[:, :, p[0]:p[0] + H, p[1]:p[1] + W]


def batch_norm(x, gamma, beta, rmean, rvar, training, momentum, eps):
    """returns (y, new_running_mean, new_running_var).  training=True -> batch statistics (biased variance) and running
    update with the unbiased variance; training=False -> running statistics, unchanged."""
    if x.ndim < 2:
        raise Reject("rank")
    C = x.shape[1]
    axes = tuple(i for i in range(x.ndim) if i != 1)
    shp = [1, C] + [1] * (x.ndim - 2)
    n = x.size // C
    if training:
        if n <= 1:
            raise Reject("one value per channel")
        mean = np.array([np.mean(np.take(x, c, axis=1)) for c in range(C)])
        var = np.array([np.mean((np.take(x, c, axis=1) - mean[c]) ** 2) for c in range(C)])
        nm, nv = rmean, rvar
        if rmean is not None:
            nm = (1 - momentum) * rmean + momentum * mean
            nv = (1 - momentum) * rvar + momentum * var * n / (n - 1)
    else:
        if rmean is None:
            raise Reject("eval without running stats")
        mean, var, nm, nv = rmean, rvar, rmean, rvar
    y = (x - mean.reshape(shp)) / np.sqrt(var.reshape(shp) + eps)
    if gamma is not None:
        y = y * gamma.reshape(shp)
    if beta is not None:
        y = y + beta.reshape(shp)
    return y, nm, nv
