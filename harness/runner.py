"""Sharded runner: cases -> subprocess workers -> aggregation -> verdict + evidence.

Exit codes of a check:  0 held on everything observed
                        1 violation (prints "VIOLATION property=<id> replay=<path>")
                        3 inconclusive (prints "INCONCLUSIVE property=<id> reason=...")
                        2 internal error of the harness itself
"""
import importlib, json, os, subprocess, sys, time, hashlib, signal
from concurrent.futures import ThreadPoolExecutor

from . import findings, evidence

VERIF = os.path.dirname(os.path.dirname(os.path.abspath(__file__)))
PY = os.environ.get("VERIF_PYTHON", "/venv/bin/python")

PROPS = {
    "C01": "c01_tensor_vjp", "C02": "c02_nn_vjp", "C03": "c03_chain_rule", "C04": "c04_accumulation",
    "C05": "c05_tensor_forward", "C06": "c06_nn_forward", "C07": "c07_grad_mode", "C08": "c08_optimizers",
    "C09": "c09_stability", "C10": "c10_dtype_shape", "C11": "c11_purity", "C12": "c12_modules",
    "C13": "c13_dropout_bn", "C14": "c14_fused", "C15": "c15_init", "C16": "c16_im2col",
    "C17": "c17_deep", "C18": "c18_data", "C19": "c19_repro", "C20": "c20_trainer",
}


def load_prop(pid):
    return importlib.import_module("props." + PROPS[pid])


def worker_env(extra=None):
    env = dict(os.environ)
    env.update({
        "PYTHONHASHSEED": "0", "SYNAPGRAD_VERIF": "1",
        "OPENBLAS_NUM_THREADS": "1", "OMP_NUM_THREADS": "1", "MKL_NUM_THREADS": "1",
        "PYTHONPATH": VERIF, "PYTHONDONTWRITEBYTECODE": "1", "MPLBACKEND": "Agg",
        "PYTHONFAULTHANDLER": "1",
    })
    if extra:
        env.update(extra)
    return env


def _run_shard(pid, tier, seed, idx, cases, workdir, timeout):
    shard = os.path.join(workdir, f"shard{idx}.json")
    out = os.path.join(workdir, f"out{idx}.json")
    with open(shard, "w") as f:
        json.dump({"pid": pid, "tier": tier, "seed": seed, "cases": cases}, f)
    t0 = time.time()
    try:
        p = subprocess.run([PY, "-m", "harness.worker", shard, out], cwd=VERIF, env=worker_env(),
                           capture_output=True, text=True, timeout=timeout)
        rc, err = p.returncode, p.stderr[-4000:]
    except subprocess.TimeoutExpired as e:
        rc, err = "timeout", (e.stderr or b"")[-2000:] if isinstance(e.stderr, (bytes, str)) else ""
        if isinstance(err, bytes):
            err = err.decode("utf8", "replace")
    res = None
    if os.path.exists(out):
        try:
            res = json.load(open(out))
        except Exception:
            res = None
    journal = None
    jp = out + ".journal"
    if os.path.exists(jp):
        try:
            journal = int(open(jp).read().strip() or -1)
        except Exception:
            journal = None
    return {"idx": idx, "rc": rc, "stderr": err, "res": res, "journal": journal, "wall": time.time() - t0,
            "ncases": len(cases)}


def case_id(case):
    return hashlib.sha256(json.dumps(case, sort_keys=True, default=str).encode()).hexdigest()[:12]


def run_property(pid, tier, seed, replay=None, jobs=None, max_cases=None):
    t0 = time.time()
    prop = load_prop(pid)
    jobs = jobs or int(os.environ.get("VERIF_JOBS", "16"))
    if replay:
        data = json.load(open(replay))
        cases = [data["case"]]
    else:
        cases = prop.gen_cases(tier, seed)
        if max_cases:
            cases = cases[:max_cases]
    if not cases:
        print(f"INCONCLUSIVE property={pid} reason=no-cases-generated")
        return 3
    workdir = os.path.join(VERIF, "out", "work", f"{pid}-{os.getpid()}")
    os.makedirs(workdir, exist_ok=True)
    nshards = 1 if replay else min(len(cases), jobs * getattr(prop, "SHARDS_PER_JOB", 1 if tier == "quick" else 3))
    shards = [cases[i::nshards] for i in range(nshards)]
    timeout = getattr(prop, "SHARD_TIMEOUT", {"quick": 600, "thorough": 3600})[tier]
    with ThreadPoolExecutor(max_workers=jobs) as ex:
        futs = [ex.submit(_run_shard, pid, tier, seed, i, shards[i], workdir, timeout) for i in range(nshards)]
        outs = [f.result() for f in futs]

    agg = {"evaluations": 0, "keys": set(), "counters": {}, "cover": {}, "violations": [], "samples": [],
           "inconclusive_samples": 0, "harness_errors": [], "shard_problems": [], "notes": []}
    for o in outs:
        r = o["res"]
        if r is not None:
            agg["evaluations"] += r["evaluations"]
            agg["keys"].update(r["keys"])
            for k, v in r["counters"].items():
                agg["counters"][k] = agg["counters"].get(k, 0) + v
            for k, v in r["cover"].items():
                agg["cover"].setdefault(k, set()).update(v)
            agg["violations"].extend(r["violations"])
            agg["samples"].extend(r["samples"])
            agg["inconclusive_samples"] += r["inconclusive"]
            agg["harness_errors"].extend(r["harness_errors"])
            agg["notes"].extend(r.get("notes", []))
        done = r is not None and r.get("complete")
        if not done:
            last = shards[o["idx"]][o["journal"]] if o["journal"] is not None and 0 <= o["journal"] < o["ncases"] else None
            if isinstance(o["rc"], int) and o["rc"] < 0:
                agg["violations"].append({"sig": f"crash:signal-{-o['rc']}", "what": f"interpreter died with signal {-o['rc']}"
                                          f" ({signal.Signals(-o['rc']).name if -o['rc'] in signal.Signals._value2member_map_ else '?'})",
                                          "case": last, "detail": {"stderr": o["stderr"][-1500:]}})
            elif o["rc"] == "timeout":
                agg["shard_problems"].append({"kind": "watchdog", "shard": o["idx"], "case": last})
            else:
                agg["shard_problems"].append({"kind": "worker-exit", "rc": o["rc"], "shard": o["idx"], "case": last,
                                              "stderr": o["stderr"][-1500:]})
    wall = time.time() - t0
    rc = _verdict(pid, prop, tier, seed, agg, wall, replay)
    # clean work dir
    for fn in os.listdir(workdir):
        try:
            os.remove(os.path.join(workdir, fn))
        except OSError:
            pass
    try:
        os.rmdir(workdir)
    except OSError:
        pass
    return rc


def _verdict(pid, prop, tier, seed, agg, wall, replay):
    known = findings.load()
    replay_dir = os.path.join(VERIF, "out", "replay", pid)
    os.makedirs(replay_dir, exist_ok=True)
    new_viol, known_hits = [], {}
    for v in agg["violations"]:
        ent = findings.match(known, pid, v["sig"])
        if ent is not None:
            known_hits.setdefault(v["sig"], {"entry": ent, "n": 0, "example": v})
            known_hits[v["sig"]]["n"] += 1
        else:
            new_viol.append(v)
    lines = []
    for sig, h in sorted(known_hits.items()):
        lines.append(f"KNOWN-FINDING: property={pid} {h['entry']['what']} [signature {sig}; {h['n']} cases this run]")
    # de-duplicate violations by signature for printing; one replay file per signature (first 3)
    by_sig = {}
    for v in new_viol:
        by_sig.setdefault(v["sig"], []).append(v)
    for sig, vs in sorted(by_sig.items()):
        for n, v in enumerate(vs[:1]):
            safe = "".join(c if c.isalnum() or c in "-_." else "_" for c in sig)[:100]
            path = os.path.join(replay_dir, f"{safe}-{n}.json")
            with open(path, "w") as f:
                json.dump({"property": pid, "sig": sig, "what": v["what"], "case": v["case"], "detail": v.get("detail")},
                          f, indent=1, default=str)
            lines.append(f"VIOLATION property={pid} replay={os.path.relpath(path, VERIF)}  # {sig}: {v['what']} ({len(vs)} cases)")
    inconclusive = []
    if agg["shard_problems"]:
        for sp in agg["shard_problems"]:
            inconclusive.append(f"{sp['kind']}:shard{sp['shard']}")
    if agg["harness_errors"]:
        inconclusive.append(f"harness-errors:{len(agg['harness_errors'])}")
    fin = getattr(prop, "finish", None)
    if fin and not replay:
        for reason in fin(agg, tier) or []:
            inconclusive.append(reason)
    nd = len(agg["keys"])
    if not replay and nd < 2:
        inconclusive.append("fewer-than-2-distinct-nontrivial-cases")
    for l in lines:
        print(l)
    if agg["harness_errors"]:
        for he in agg["harness_errors"][:3]:
            print("HARNESS-ERROR", json.dumps(he, default=str)[:3000], file=sys.stderr)
    for sp in agg["shard_problems"][:3]:
        print("SHARD-PROBLEM", json.dumps(sp, default=str)[:3000], file=sys.stderr)
    if not replay and not os.environ.get("VERIF_NO_EVIDENCE"):
        evidence.write(pid, prop, tier, seed, agg, wall, len(new_viol), known_hits, inconclusive)
    summary = (f"{pid} tier={tier} seed={seed} evaluations={agg['evaluations']} distinct_nontrivial={nd} "
               f"violations={len(new_viol)} known={sum(h['n'] for h in known_hits.values())} "
               f"inconclusive_samples={agg['inconclusive_samples']} wall={wall:.1f}s")
    print(summary)
    if new_viol:
        return 1
    if inconclusive:
        print(f"INCONCLUSIVE property={pid} reason={';'.join(inconclusive)}")
        return 3
    return 0
