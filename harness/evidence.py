"""evidence/<id>.json writer; structure is checked before writing."""
import json, os

VERIF = os.path.dirname(os.path.dirname(os.path.abspath(__file__)))


def _check(ev):
    assert isinstance(ev["property_id"], str) and ev["tier"] in ("quick", "thorough")
    assert isinstance(ev["seed"], int) and isinstance(ev["wall_s"], float)
    c = ev["coverage"]
    assert isinstance(c["evaluations"], int) and isinstance(c["distinct_nontrivial"], int)
    assert isinstance(c["rule"], str) and isinstance(c["samples"], list)


def write(pid, prop, tier, seed, agg, wall, nviol, known_hits, inconclusive):
    cov = {
        "evaluations": int(agg["evaluations"]),
        "distinct_nontrivial": len(agg["keys"]),
        "rule": prop.RULE,
        "samples": agg["samples"][:8],
        "monitor_events": {k: v for k, v in sorted(agg["counters"].items())},
        "classes_seen": {k: (sorted(v) if len(v) <= 80 else {"count": len(v), "first": sorted(v)[:40]})
                         for k, v in sorted(agg["cover"].items())},
        "inconclusive_samples": agg["inconclusive_samples"],
        "known_findings_hit": {sig: h["n"] for sig, h in known_hits.items()},
        "run_inconclusive_reasons": inconclusive,
        "verdict": "violated" if nviol else ("inconclusive" if inconclusive else "held-on-observed"),
    }
    if getattr(prop, "EXHAUSTIVE", {}).get(tier):
        cov["exhaustive"] = True
        cov["exhaustive_space"] = prop.EXHAUSTIVE[tier]
    if hasattr(prop, "EXCLUDED_DOMAIN"):
        cov["excluded_domain"] = prop.EXCLUDED_DOMAIN
    if agg.get("notes"):
        cov["notes"] = agg["notes"][:20]
    ev = {"property_id": pid, "tier": tier, "seed": int(seed), "level": "exploration", "coverage": cov,
          "assumptions": list(prop.ASSUMPTIONS), "wall_s": round(float(wall), 2), "violations": int(nviol)}
    _check(ev)
    os.makedirs(os.path.join(VERIF, "evidence"), exist_ok=True)
    with open(os.path.join(VERIF, "evidence", f"{pid}.json"), "w") as f:
        json.dump(ev, f, indent=1, default=str)
