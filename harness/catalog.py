"""Catalogue of the public tensor operations: how to call each form on the library, an independent float64
NumPy reference written from the NumPy / PyTorch documentation, argument grids, value domains and FD mode.

A case is {"op", "form", "shapes", "args", ...}; args are JSON-able (tuples as lists, indices encoded by gen.enc_index).
"""
import itertools, math
import numpy as np
from . import gen


class Reject(Exception):
    """the reference semantics (NumPy and PyTorch) both reject this argument combination"""


def tup(x):
    return tuple(x) if isinstance(x, list) else x


def norm_dim(d, r, extra=0):
    if not isinstance(d, (int, np.integer)) or isinstance(d, bool):
        raise Reject("dim type")
    if d < -(r + extra) or d >= r + extra:
        raise Reject("dim range")
    return d % (r + extra) if (r + extra) > 0 else 0


def norm_dims(dim, r):
    if dim is None:
        return tuple(range(r))
    if isinstance(dim, (list, tuple)):
        ds = [norm_dim(d, r) for d in dim]
        if len(set(ds)) != len(ds):
            raise Reject("repeated dim")
        return tuple(ds)
    return (norm_dim(dim, r),)


# ------------------------------------------------------------------------------------------------ references
def ref_reduce(fn):
    def ref(xs, a):
        x = xs[0]
        dim = tup(a["dim"])
        if x.ndim == 0 and dim is not None:
            raise Reject("0-d with dim")
        if isinstance(dim, tuple) and len(dim) == 0:
            raise Reject("empty dim tuple (NumPy and PyTorch disagree)")
        ds = norm_dims(dim, x.ndim)
        out = x
        # reduce one axis at a time, highest first (independent of the implementation's tuple handling)
        for d in sorted(ds, reverse=True):
            out = fn(out, d)
        if a["keepdims"]:
            for d in sorted(ds):
                out = np.expand_dims(out, d)
        return out
    return ref


def _mean_ax(x, d):
    return np.add.reduce(x, axis=d) / x.shape[d]


def ref_mean(xs, a):
    x = xs[0]
    dim = tup(a["dim"])
    if x.ndim == 0 and dim is not None:
        raise Reject("0-d with dim")
    if isinstance(dim, tuple) and len(dim) == 0:
        raise Reject("empty dim")
    ds = norm_dims(dim, x.ndim)
    cnt = 1
    for d in ds:
        cnt *= x.shape[d]
    out = x
    for d in sorted(ds, reverse=True):
        out = np.add.reduce(out, axis=d)
    out = out / cnt
    if a["keepdims"]:
        for d in sorted(ds):
            out = np.expand_dims(out, d)
    return out


def ref_squeeze(xs, a):
    x = xs[0]
    dim = tup(a["dim"])
    if dim is None:
        return x.reshape([s for s in x.shape if s != 1])
    if x.ndim == 0:
        if dim in (0, -1) or dim == () or dim in ((0,), (-1,)):
            return x
        raise Reject("dim out of range for 0-d")
    ds = norm_dims(dim, x.ndim)
    return x.reshape([s for i, s in enumerate(x.shape) if not (i in ds and s == 1)])


def ref_unsqueeze(xs, a):
    x = xs[0]
    dim = tup(a["dim"])
    if isinstance(dim, tuple):
        r = x.ndim + len(dim)
        ds = [norm_dim(d, r) for d in dim]
        if len(set(ds)) != len(ds):
            raise Reject("repeated")
        shape = []
        it = iter(x.shape)
        for i in range(r):
            shape.append(1 if i in ds else next(it))
        return x.reshape(shape)
    d = norm_dim(dim, x.ndim, extra=1)
    shape = list(x.shape)
    shape.insert(d, 1)
    return x.reshape(shape)


def ref_reshape(xs, a):
    x = xs[0]
    shape = list(a["shape"])
    if shape.count(-1) > 1 or any(s < -1 for s in shape):
        raise Reject("bad shape")
    known = 1
    for s in shape:
        if s != -1:
            known *= s
    if -1 in shape:
        if known == 0 or x.size % known:
            raise Reject("cannot infer")
        shape[shape.index(-1)] = x.size // known
    elif known != x.size:
        raise Reject("size mismatch")
    return np.ravel(x, order="C").reshape(shape)


def ref_movedim(xs, a):
    x = xs[0]
    r = x.ndim
    src, dst = a["source"], a["destination"]
    src = [src] if isinstance(src, int) else list(src)
    dst = [dst] if isinstance(dst, int) else list(dst)
    if len(src) != len(dst):
        raise Reject("len")
    s = [norm_dim(d, r) for d in src]
    t = [norm_dim(d, r) for d in dst]
    if len(set(s)) != len(s) or len(set(t)) != len(t):
        raise Reject("repeated")
    perm = [None] * r
    for si, ti in zip(s, t):
        perm[ti] = si
    rest = [i for i in range(r) if i not in s]
    it = iter(rest)
    for i in range(r):
        if perm[i] is None:
            perm[i] = next(it)
    return np.transpose(x, perm)


def ref_transpose(xs, a):
    x = xs[0]
    if x.ndim == 0:
        if a["dim0"] in (0, -1) and a["dim1"] in (0, -1):
            return x
        raise Reject("0-d")
    d0, d1 = norm_dim(a["dim0"], x.ndim), norm_dim(a["dim1"], x.ndim)
    perm = list(range(x.ndim))
    perm[d0], perm[d1] = perm[d1], perm[d0]
    return np.transpose(x, perm)


def ref_flatten(xs, a):
    x = xs[0]
    if x.ndim == 0:
        if a["start_dim"] in (0, -1) and a["end_dim"] in (0, -1):
            return x.reshape(1)
        raise Reject("0-d dims")
    s, e = norm_dim(a["start_dim"], x.ndim), norm_dim(a["end_dim"], x.ndim)
    if s > e:
        raise Reject("start after end")
    mid = 1
    for v in x.shape[s:e + 1]:
        mid *= v
    return np.ravel(x, order="C").reshape(list(x.shape[:s]) + [mid] + list(x.shape[e + 1:]))


def ref_unfold_dim(xs, a):
    x = xs[0]
    if x.ndim == 0:
        raise Reject("0-d")
    d = norm_dim(a["dimension"], x.ndim)
    size, step = a["size"], a["step"]
    if not isinstance(size, int) or not isinstance(step, int) or size <= 0 or step <= 0 or size > x.shape[d]:
        raise Reject("size/step")
    n = (x.shape[d] - size) // step + 1
    out = np.empty(list(x.shape[:d]) + [n] + list(x.shape[d + 1:]) + [size], dtype=x.dtype)
    for i in range(n):
        for k in range(size):
            src = np.take(x, i * step + k, axis=d)
            dst_idx = [slice(None)] * out.ndim
            dst_idx[d] = i
            dst_idx[-1] = k
            out[tuple(dst_idx)] = src
    return out


def ref_concat(xs, a):
    dim = a["dim"]
    if any(x.ndim == 0 for x in xs):
        raise Reject("0-d")
    r = xs[0].ndim
    if any(x.ndim != r for x in xs):
        raise Reject("rank")
    d = norm_dim(dim, r)
    for x in xs:
        if list(x.shape[:d]) + list(x.shape[d + 1:]) != list(xs[0].shape[:d]) + list(xs[0].shape[d + 1:]):
            raise Reject("shape")
    total = sum(x.shape[d] for x in xs)
    out = np.empty(list(xs[0].shape[:d]) + [total] + list(xs[0].shape[d + 1:]), dtype=np.result_type(*xs))
    o = 0
    for x in xs:
        idx = [slice(None)] * r
        idx[d] = slice(o, o + x.shape[d])
        out[tuple(idx)] = x
        o += x.shape[d]
    return out


def ref_stack(xs, a):
    if any(x.shape != xs[0].shape for x in xs):
        raise Reject("shape")
    d = norm_dim(a["dim"], xs[0].ndim, extra=1)
    return ref_concat([np.expand_dims(x, d) for x in xs], {"dim": d})


def ref_unbind(xs, a):
    x = xs[0]
    if x.ndim == 0:
        raise Reject("0-d")
    d = norm_dim(a["dim"], x.ndim)
    return tuple(np.take(x, i, axis=d) for i in range(x.shape[d]))


def ref_slice(xs, a):
    idx = gen.dec_index(a["index"])
    try:
        return np.array(xs[0][idx])
    except (IndexError, ValueError, TypeError) as e:
        raise Reject(str(e))


def ref_matmul(xs, a):
    x, y = xs
    if x.ndim == 0 or y.ndim == 0:
        raise Reject("0-d")
    try:
        return np.matmul(x, y)
    except ValueError as e:
        raise Reject(str(e))


def ref_bcast(fn):
    def ref(xs, a):
        try:
            np.broadcast_shapes(*[x.shape for x in xs])
        except ValueError:
            raise Reject("not broadcastable")
        return fn(*xs)
    return ref


def ref_addmm(xs, a):
    x, b, c = xs
    if b.ndim < 2 or c.ndim < 2 or b.shape[-1] != c.shape[-2]:
        raise Reject("mm shapes")
    try:
        mm = np.matmul(b, c)
    except ValueError:
        raise Reject("batch dims")
    try:
        np.broadcast_shapes(x.shape, mm.shape)          # the documented expression is x1 + x2 @ x3 (NumPy semantics: x1 may broadcast the product up as well)
    except ValueError:
        raise Reject("not broadcastable")
    return x + mm


# ------------------------------------------------------------------------------------------------ op table
class Op:
    def __init__(self, name, forms, ref, mode="affine", vclasses=("normal",), documented=None, argclass=None, narg=1):
        self.name, self.forms, self.ref, self._mode = name, forms, ref, mode
        self.vclasses, self._doc, self._argclass, self.narg = vclasses, documented, argclass, narg

    def mode(self, a):
        return self._mode(a) if callable(self._mode) else self._mode

    def documented(self, a, shapes):
        return True if self._doc is None else bool(self._doc(a, shapes))

    def argclass(self, a, shapes):
        if self._argclass:
            return self._argclass(a, shapes)
        return generic_argclass(a, shapes)


def generic_argclass(a, shapes):
    parts = []
    for k in sorted(a):
        v = a[k]
        if k in ("scalar",):
            continue
        if isinstance(v, bool):
            parts.append(f"{k}={v}")
        elif v is None:
            parts.append(f"{k}=None")
        elif isinstance(v, int):
            parts.append(f"{k}={'neg' if v < 0 else 'nonneg'}")
        elif isinstance(v, float):
            parts.append(f"{k}=float")
        elif isinstance(v, list) and all(isinstance(x, int) for x in v):
            parts.append(f"{k}=tuple{'-neg' if any(x < 0 for x in v) else ''}")
        else:
            parts.append(f"{k}={type(v).__name__}")
    return ",".join(parts)


def shape_class(shapes):
    out = []
    for s in shapes:
        if len(s) == 0:
            out.append("0d")
        elif int(np.prod(s)) == 1:
            out.append(f"{len(s)}d-size1")
        else:
            out.append(f"{len(s)}d" + ("-has1" if 1 in s else ""))
    return "|".join(out)


def _scalar(a):
    v = a["scalar"]
    return v


OPS = {}


def _reg(op):
    OPS[op.name] = op


def _pow_vclass(n):
    if float(n) == int(n) and n >= 1:
        return "normal"
    if float(n) == int(n):
        return "pm_wellcond"
    return "positive"


def _aug(symbol):
    """augmented assignment `r = x; r <op>= y`: the statement rebinds r to the result; x itself is an operand like any other"""
    def f(L, t, a):
        r = t[0]
        if symbol == "+":
            r += t[1]
        elif symbol == "-":
            r -= t[1]
        elif symbol == "*":
            r *= t[1]
        elif symbol == "/":
            r /= t[1]
        else:
            r @= t[1]
        return r
    return f


_reg(Op("add", {
    "func": lambda L, t, a: L.sg.add(t[0], t[1]),
    "operator": lambda L, t, a: t[0] + t[1],
    "operator_augmented": _aug("+"),
    "operator_ndarray_right": lambda L, t, a: t[0] + t[1].data,
}, ref_bcast(lambda x, y: x + y), narg=2, vclasses=("normal", "negative", "large")))
_reg(Op("add_scalar", {
    "right": lambda L, t, a: t[0] + _scalar(a),
    "left": lambda L, t, a: _scalar(a) + t[0],
}, lambda xs, a: xs[0] + a["scalar"], vclasses=("normal", "negative")))
_reg(Op("sub", {"operator": lambda L, t, a: t[0] - t[1], "operator_augmented": _aug("-")}, ref_bcast(lambda x, y: x - y), narg=2, vclasses=("normal", "negative")))
_reg(Op("sub_scalar", {
    "right": lambda L, t, a: t[0] - _scalar(a),
    "left": lambda L, t, a: _scalar(a) - t[0],
}, lambda xs, a: (xs[0] - a["scalar"]) if a["side"] == "right" else (a["scalar"] - xs[0]), vclasses=("normal", "negative")))
_reg(Op("mul", {
    "func": lambda L, t, a: L.sg.mul(t[0], t[1]),
    "operator": lambda L, t, a: t[0] * t[1],
    "operator_augmented": _aug("*"),
}, ref_bcast(lambda x, y: x * y), narg=2, vclasses=("normal", "negative", "large")))
_reg(Op("mul_scalar", {
    "right": lambda L, t, a: t[0] * _scalar(a),
    "left": lambda L, t, a: _scalar(a) * t[0],
}, lambda xs, a: xs[0] * a["scalar"], vclasses=("normal", "negative")))
_reg(Op("div", {"operator": lambda L, t, a: t[0] / t[1], "operator_augmented": _aug("/")}, ref_bcast(lambda x, y: x / y), narg=2, mode="richardson",
        vclasses=(("normal", "pm_wellcond"), ("negative", "positive"))))
_reg(Op("div_scalar", {
    "right": lambda L, t, a: t[0] / _scalar(a),
    "left": lambda L, t, a: _scalar(a) / t[0],
}, lambda xs, a: (xs[0] / a["scalar"]) if a["side"] == "right" else (a["scalar"] / xs[0]),
        mode=lambda a: "affine" if a["side"] == "right" else "richardson", vclasses=("pm_wellcond", "positive")))
_reg(Op("matmul", {
    "func": lambda L, t, a: L.sg.matmul(t[0], t[1]),
    "operator": lambda L, t, a: t[0] @ t[1],
    "operator_augmented": _aug("@"),
    "operator_ndarray_right": lambda L, t, a: t[0] @ t[1].data,
}, ref_matmul, narg=2, documented=lambda a, s: len(s[0]) >= 2 and len(s[1]) >= 2))
_reg(Op("addmm", {"func": lambda L, t, a: L.sg.addmm(t[0], t[1], t[2])}, ref_addmm, narg=3,
        documented=lambda a, s: len(s[1]) == 2 and len(s[2]) == 2, argclass=lambda a, s: "batched" if a.get("batched") else ("larger-x1" if a.get("larger_x1") else "2d")))
_reg(Op("pow", {
    "func": lambda L, t, a: L.sg.pow(t[0], a["n"]),
    "operator": lambda L, t, a: t[0] ** a["n"],
}, lambda xs, a: xs[0] ** a["n"], mode=lambda a: "affine" if a["n"] == 1 else "richardson",
        vclasses=None, argclass=lambda a, s: "n=" + ("int" if float(a["n"]) == int(a["n"]) else "frac") + ("-neg" if a["n"] < 0 else ("-zero" if a["n"] == 0 else "-pos"))))
_reg(Op("rpow", {
    "func": lambda L, t, a: L.sg.rpow(t[0], a["n"]),
    "operator": lambda L, t, a: a["n"] ** t[0],
}, lambda xs, a: a["n"] ** xs[0], mode="richardson", vclasses=("normal", "negative")))
_reg(Op("neg", {
    "func": lambda L, t, a: L.sg.neg(t[0]),
    "operator": lambda L, t, a: -t[0],
}, lambda xs, a: -xs[0], vclasses=("normal", "negative")))
def _slice_then_mutate_index(L, t, a):
    idx = gen.dec_index(a["index"])
    out = t[0][idx]
    # the caller re-uses its index container afterwards; the recorded op must not follow it
    for part in (idx if isinstance(idx, tuple) else (idx,)):
        if isinstance(part, list) and part and not isinstance(part[0], bool):
            part[:] = [0] * len(part)
        elif isinstance(part, np.ndarray) and part.dtype != bool and part.size:
            part[...] = 0
    return out


_reg(Op("slice", {
    "getitem": lambda L, t, a: t[0][gen.dec_index(a["index"])],
    "func": lambda L, t, a: L.sg.slice(t[0], gen.dec_index(a["index"])),
    "getitem_index_mutated_after": _slice_then_mutate_index,
}, ref_slice, argclass=lambda a, s: gen.index_class(a["index"]),
        documented=lambda a, s: a["index"]["t"] == "slice"))
def _then_mutate_list(call):
    def f(L, t, a):
        lst = list(t)
        out = call(L, lst, a)
        lst.reverse()               # the caller goes on using (and changing) its own list
        if lst:
            lst.pop()
        return out
    return f


_reg(Op("concat", {"func": lambda L, t, a: L.sg.concat(list(t), a["dim"]),
                   "func_tuple": lambda L, t, a: L.sg.concat(tuple(t), a["dim"]),
                   "func_list_mutated_after": _then_mutate_list(lambda L, lst, a: L.sg.concat(lst, a["dim"]))}, ref_concat, narg=None))
_reg(Op("stack", {"func": lambda L, t, a: L.sg.stack(list(t), a["dim"]),
                  "func_list_mutated_after": _then_mutate_list(lambda L, lst, a: L.sg.stack(lst, a["dim"]))}, ref_stack, narg=None))
_reg(Op("unbind", {"func": lambda L, t, a: L.sg.unbind(t[0], a["dim"])}, ref_unbind,
        documented=lambda a, s: True))
_reg(Op("clone", {"func": lambda L, t, a: L.sg.clone(t[0]), "method": lambda L, t, a: t[0].clone()}, lambda xs, a: xs[0].copy()))
_reg(Op("exp", {"func": lambda L, t, a: L.sg.exp(t[0]), "method": lambda L, t, a: t[0].exp()}, lambda xs, a: np.exp(xs[0]),
        mode="richardson", vclasses=("normal", "negative", "moderate")))
_reg(Op("log", {"func": lambda L, t, a: L.sg.log(t[0]), "method": lambda L, t, a: t[0].log()}, lambda xs, a: np.log(xs[0]),
        mode="richardson", vclasses=("positive",)))
_reg(Op("sqrt", {"func": lambda L, t, a: L.sg.sqrt(t[0]), "method": lambda L, t, a: t[0].sqrt()}, lambda xs, a: np.sqrt(xs[0]),
        mode="richardson", vclasses=("positive",)))


def _red_forms(name):
    return {"func": lambda L, t, a: getattr(L.sg, name)(t[0], tup(a["dim"]), a["keepdims"]),
            "method": lambda L, t, a: getattr(t[0], name)(tup(a["dim"]), a["keepdims"]),
            "func_kw": lambda L, t, a: getattr(L.sg, name)(t[0], dim=tup(a["dim"]), keepdims=a["keepdims"])}


def _red_argclass(a, s):
    d = a["dim"]
    if d is None:
        k = "dim=None"
    elif isinstance(d, list):
        k = "dim=tuple" + ("-neg" if any(x < 0 for x in d) else "")
    else:
        k = "dim=int" + ("-neg" if d < 0 else "")
    return k + (",keepdims" if a["keepdims"] else "")


_reg(Op("sum", _red_forms("sum"), ref_reduce(lambda x, d: np.add.reduce(x, axis=d)), vclasses=("normal", "negative", "large"),
        argclass=_red_argclass))
_reg(Op("mean", _red_forms("mean"), ref_mean, vclasses=("normal", "negative"), argclass=_red_argclass))
_reg(Op("max", _red_forms("max"), ref_reduce(lambda x, d: np.maximum.reduce(x, axis=d)), mode="richardson",
        vclasses=("distinct",), argclass=_red_argclass, documented=lambda a, s: not isinstance(a["dim"], list)))
_reg(Op("min", _red_forms("min"), ref_reduce(lambda x, d: np.minimum.reduce(x, axis=d)), mode="richardson",
        vclasses=("distinct",), argclass=_red_argclass, documented=lambda a, s: not isinstance(a["dim"], list)))
_reg(Op("squeeze", {"func": lambda L, t, a: L.sg.squeeze(t[0], tup(a["dim"])), "method": lambda L, t, a: t[0].squeeze(tup(a["dim"]))},
        ref_squeeze, argclass=lambda a, s: "dim=" + ("None" if a["dim"] is None else ("tuple" if isinstance(a["dim"], list) else "int"))))
_reg(Op("unsqueeze", {"func": lambda L, t, a: L.sg.unsqueeze(t[0], tup(a["dim"])), "method": lambda L, t, a: t[0].unsqueeze(tup(a["dim"]))},
        ref_unsqueeze, argclass=lambda a, s: "dim=" + ("tuple" if isinstance(a["dim"], list) else "int")))
_reg(Op("reshape", {"func": lambda L, t, a: L.sg.reshape(t[0], tuple(a["shape"])), "method": lambda L, t, a: t[0].reshape(tuple(a["shape"]))},
        ref_reshape))
_reg(Op("movedim", {"func": lambda L, t, a: L.sg.movedim(t[0], tup(a["source"]), tup(a["destination"])),
                    "method": lambda L, t, a: t[0].movedim(tup(a["source"]), tup(a["destination"])),
                    "moveaxis": lambda L, t, a: t[0].moveaxis(tup(a["source"]), tup(a["destination"]))},
        ref_movedim, documented=lambda a, s: isinstance(a["source"], int),
        argclass=lambda a, s: ("seq" if not isinstance(a["source"], int) else
                               ("identity" if a["source"] % max(1, len(s[0])) == a["destination"] % max(1, len(s[0])) else
                                ("adjacent-or-self-inverse" if abs(a["source"] % len(s[0]) - a["destination"] % len(s[0])) == 1 else "non-self-inverse")))))
_reg(Op("transpose", {"func": lambda L, t, a: L.sg.transpose(t[0], a["dim0"], a["dim1"]),
                      "method": lambda L, t, a: t[0].transpose(a["dim0"], a["dim1"])}, ref_transpose))
_reg(Op("flatten", {"func": lambda L, t, a: L.sg.flatten(t[0], a["start_dim"], a["end_dim"]),
                    "method": lambda L, t, a: t[0].flatten(a["start_dim"], a["end_dim"])}, ref_flatten,
        argclass=lambda a, s: ("0d" if len(s[0]) == 0 else f"start={'neg' if a['start_dim'] < 0 else 'nonneg'},end={'neg' if a['end_dim'] < 0 else 'nonneg'}"
                               + (",end=-1" if a["end_dim"] == -1 else "") + (",start=-1" if a["start_dim"] == -1 else ""))))
_reg(Op("unfold_dim", {"func": lambda L, t, a: L.sg.unfold_dim(t[0], a["dimension"], a["size"], a["step"]),
                       "method": lambda L, t, a: t[0].unfold(a["dimension"], a["size"], a["step"])}, ref_unfold_dim))


# ------------------------------------------------------------------------------------------------ argument grids
def _facts(n, maxrank=3):
    out = set()

    def rec(rem, cur):
        if rem == 1 and cur:
            out.add(tuple(cur))
        if len(cur) >= maxrank:
            return
        for f in range(1, rem + 1):
            if rem % f == 0:
                if f == 1 and (1 in cur or rem == 1):
                    continue
                rec(rem // f, cur + [f])
    rec(n, [])
    if n == 1:
        out |= {(1,), (1, 1), ()}
    return sorted(out)


def grid(opname, tier, rng):
    """yields (shapes, args) pairs for an op: the argument grid enumerated for small ranks, sampled beyond"""
    thorough = tier == "thorough"
    base = gen.BASE_SHAPES_THOROUGH if thorough else gen.BASE_SHAPES_QUICK
    maxrank = 4 if thorough else 3
    out = []
    if opname in ("add", "mul", "sub", "div"):
        for tgt in base:
            pairs = gen.broadcast_pairs(tgt)
            if not thorough and len(pairs) > 10:
                keep = [pairs[0], pairs[-1]] + [pairs[int(i)] for i in rng.choice(len(pairs), 8, replace=False)]
                pairs = keep
            for a, b in pairs:
                out.append(([a, b], {}))
    elif opname.endswith("_scalar"):
        for s in base:
            for sc in ([2, -1.5, 0.1] if thorough else [2, 0.1]):
                if opname == "div_scalar" and sc == 0:
                    continue
                for side in ("right", "left"):
                    out.append(([s], {"scalar": sc, "side": side}))
    elif opname == "matmul":
        batches = [[], [2], [2, 3]] if thorough else [[], [2]]
        mkn = [(1, 1, 1), (2, 3, 2), (3, 1, 2), (1, 3, 1), (2, 2, 3)] if thorough else [(2, 3, 2), (1, 3, 1), (3, 1, 2)]
        for bt in batches:
            for ba, bb in gen.broadcast_pairs(bt):
                for m, k, n in mkn:
                    out.append(([ba + [m, k], bb + [k, n]], {}))
        out.append(([[3], [3]], {}))       # 1-D: documented as rejected
        out.append(([[2, 3], [3]], {}))
    elif opname == "addmm":
        # batched products (forward accepts whatever `a + b @ c` accepts)
        for sb, sc in (([3, 4], [2, 4, 5]), ([1, 3, 4], [2, 4, 5]), ([2, 3, 4], [4, 5]), ([2, 3, 4], [2, 4, 5]), ([2, 1, 3, 4], [1, 2, 4, 2])):
            mm = list(np.broadcast_shapes(tuple(sb[:-2]), tuple(sc[:-2]))) + [sb[-2], sc[-1]]
            pats = gen.broadcast_patterns(mm)
            for sa in ([mm, pats[-1], pats[len(pats) // 2]] if not thorough else pats):
                out.append(([sa, sb, sc], {"batched": True}))
        for m, k, n in ([(2, 3, 2), (1, 2, 3), (3, 1, 1)] if not thorough else [(2, 3, 2), (1, 2, 3), (3, 1, 1), (2, 2, 2), (1, 1, 1)]):
            for sa in gen.broadcast_patterns([m, n]):
                out.append(([sa, [m, k], [k, n]], {}))
        # the documented expression is x1 + x2 @ x3: an x1 that broadcasts the product *up* (an extra batch axis, an extent where the product has 1)
        for sa, sb, sc in (([2, 3, 4], [3, 2], [2, 4]), ([3, 4], [1, 2], [2, 4]), ([2, 1, 4], [3, 2], [2, 4]), ([5, 2, 2], [1, 2, 3], [3, 2]), ([3, 4], [3, 2], [2, 1])):
            out.append(([sa, sb, sc], {"larger_x1": True}))
    elif opname == "pow":
        ns = [-3, -2, -1, 0, 1, 2, 3, 4, 0.5, 1.5, -0.5, 2.5, 2.0]
        for s in (base if thorough else base[:7]):
            for n in ns:
                out.append(([s], {"n": n}))
    elif opname == "rpow":
        for s in (base if thorough else base[:7]):
            for n in [0.5, 2, math.e, 10, 3]:
                out.append(([s], {"n": n}))
    elif opname in ("neg", "clone", "exp", "log", "sqrt"):
        for s in base:
            out.append(([s], {}))
    elif opname == "slice":
        curated = {
            (4,): [1, -1, slice(1, 3), slice(None, None, 2), slice(None, None, -1), slice(3, 0, -2), Ellipsis, None, [0, 0, 1], [3, -1, 3, 3],
                   np.array([True, False, True, True]), (None, slice(1, None)), (slice(None), None), [2], [0, -4], [1, -3, 3, -1]],
            (3, 4): [0, -1, (1, 2), (slice(None), 1), (slice(0, 2), slice(1, 4, 2)), (Ellipsis, 0), (0, Ellipsis), (None, 1), ([0, 0, 2],),
                     ([0, 2], [1, 1]), (slice(None), [0, 0, 3]), np.array([[True, False, True, False]] * 3), np.array([True, False, True]),
                     (slice(None, None, -1), slice(None, None, -2)), (1, None, slice(None)), (Ellipsis,), (slice(2, 0, -1),), ([1, 1, 1, 1],),
                     (slice(None), [1, -3, 0]), ([0, 1, -3], [2, 3, -2]), ([2, -1],), [0, 2], [2, 2], [1, 0, 1], [True, False, True]],
            (2, 3, 2): [[1, 0], [0, 0, 1], (0,), (1, 2), (1, 2, 0), (Ellipsis, 1), (slice(None), slice(None), 0), (0, Ellipsis, 1), ([0, 0], slice(None), [1, 0]),
                        (None, Ellipsis, None), (slice(None), [2, 0, 2]), (-1, -1, -1), (slice(None), 1, slice(None, None, -1))],
            (2, 2, 1, 3): [(1, 0), (Ellipsis, 0, 2), (slice(None), None, 1), ([1, 1, 0],), (0, slice(None), 0, [0, 0, 2])],
        }
        for shp, idxs in curated.items():
            for ix in idxs:
                out.append(([list(shp)], {"index": gen.enc_index(ix)}))
        nrand = 400 if thorough else 60
        shapes = [(5,), (3, 4), (2, 3, 2), (2, 2, 3, 2)]
        for i in range(nrand):
            shp = shapes[i % len(shapes)]
            ix = gen.random_index(rng, shp)
            out.append(([list(shp)], {"index": gen.enc_index(ix)}))
    elif opname in ("concat", "stack"):
        shapes = [[3], [2, 3], [1, 2], [2, 1, 3]] + ([[2, 2, 2, 2], [1]] if thorough else [])
        for s in shapes:
            r = len(s)
            dims = list(range(-r, r)) if opname == "concat" else list(range(-r - 1, r + 1))
            for d in dims:
                for k in ((1, 2, 3, 4) if thorough else (1, 2, 3)):
                    shs = []
                    for j in range(k):
                        t = list(s)
                        if opname == "concat":
                            t[d % r] = int(rng.integers(1, 4))
                        shs.append(t)
                    out.append((shs, {"dim": d}))
        out.append(([[2, 3], [2, 3]], {"dim": 0, "alias": True}))
        out.append(([[3], [3], [3]], {"dim": -1, "alias": True}))
    elif opname == "unbind":
        for s in [b for b in base if len(b) >= 1]:
            for d in range(-len(s), len(s)):
                out.append(([s], {"dim": d}))
    elif opname in ("sum", "mean", "max", "min"):
        for s in base:
            r = len(s)
            if r > maxrank:
                dims = [None, 0, -1, [0, -1], [1, 2], [-2, 0, 1]]
            else:
                dims = [None] + (list(range(-r, r)) + gen.dim_tuples(r) if r else [])
            for d in dims:
                for kd in (False, True):
                    out.append(([s], {"dim": d, "keepdims": kd}))
    elif opname == "squeeze":
        shapes = [[], [1], [3], [1, 3], [3, 1], [1, 1], [2, 1, 3], [1, 2, 1], [1, 1, 1], [2, 1, 1, 3]]
        for s in shapes:
            r = len(s)
            dims = [None] + (list(range(-r, r)) + (gen.dim_tuples(r, 2) if r <= 3 else [[1, 2], [0, 1], [-2, -3]]) if r else [])
            for d in dims:
                out.append(([s], {"dim": d}))
    elif opname == "unsqueeze":
        for s in [[], [3], [2, 3], [2, 1, 3]]:
            r = len(s)
            for d in range(-r - 1, r + 1):
                out.append(([s], {"dim": d}))
            for dt in ([[0, 1], [0, -1], [1, 0], [-1, -2], [0, 2]] if r else [[0], [0, 1]]):
                if max(abs(x) for x in dt) <= r + len(dt):
                    out.append(([s], {"dim": dt}))
    elif opname == "reshape":
        for s in [[], [1], [6], [2, 3], [2, 3, 2], [1, 4, 1], [2, 2, 3, 1]]:
            n = int(np.prod(s)) if s else 1
            for f in _facts(n, 3 if not thorough else 4):
                out.append(([s], {"shape": list(f)}))
                if len(f) >= 1:
                    for pos in range(len(f)):
                        g = list(f); g[pos] = -1
                        out.append(([s], {"shape": g}))
    elif opname == "movedim":
        for s in [[3], [2, 3], [2, 3, 4], [3, 3, 3], [2, 1, 3, 2]]:
            r = len(s)
            for a_ in range(-r, r):
                for b_ in range(-r, r):
                    out.append(([s], {"source": a_, "destination": b_}))
        out.append(([[2, 3, 4]], {"source": [0, 1], "destination": [2, 0]}))
        out.append(([[2, 3, 4]], {"source": [0, -1], "destination": [-1, 0]}))
        out.append(([[2, 3, 4, 2]], {"source": [3, 0], "destination": [1, 2]}))
    elif opname == "transpose":
        for s in [[3], [2, 3], [2, 3, 4], [2, 1, 3, 2]]:
            r = len(s)
            for a_ in range(-r, r):
                for b_ in range(-r, r):
                    out.append(([s], {"dim0": a_, "dim1": b_}))
    elif opname == "flatten":
        out.append(([[]], {"start_dim": 0, "end_dim": -1}))
        for s in [[3], [2, 3], [2, 3, 4], [2, 3, 4, 5]] + ([[2, 1, 2, 1, 2]] if thorough else []):
            r = len(s)
            for a_ in range(-r, r):
                for b_ in range(-r, r):
                    out.append(([s], {"start_dim": a_, "end_dim": b_}))
    elif opname == "unfold_dim":
        for s in [[5], [4, 3], [2, 5, 3]] + ([[2, 2, 4, 3], [6]] if thorough else []):
            r = len(s)
            for d in range(-r, r):
                L = s[d % r]
                for size in range(1, L + 1):
                    for step in (1, 2, 3):
                        out.append(([s], {"dimension": d, "size": size, "step": step}))
                out.append(([s], {"dimension": d, "size": L + 1, "step": 1}))     # must raise
                out.append(([s], {"dimension": d, "size": 0, "step": 1}))          # must raise
                out.append(([s], {"dimension": d, "size": 1, "step": 0}))          # must raise
    else:
        raise KeyError(opname)
    return out


def vclass_options(op, a):
    if op.name == "pow":
        if float(a["n"]) == int(a["n"]) and a["n"] >= 1:
            return ["normal", "withzeros"]        # the derivative n*x^(n-1) is finite at exact zeros for integer n >= 1
        return [_pow_vclass(a["n"])]
    return list(op.vclasses)


def make_operands(case, rng):
    """float64 operand arrays for a case"""
    op = OPS[case["op"]]
    vc = case["vclass"]
    xs = []
    for i, s in enumerate(case["shapes"]):
        v = vc[i] if isinstance(vc, (list, tuple)) else vc
        xs.append(gen.values(rng, s, v))
    if case["args"].get("alias"):
        xs = [xs[0] for _ in xs]
    return xs
