import argparse, os, sys


def main():
    ap = argparse.ArgumentParser()
    ap.add_argument("pid")
    ap.add_argument("--tier", default=os.environ.get("VERIF_TIER") or "quick", choices=["quick", "thorough"])
    ap.add_argument("--seed", type=int, default=int(os.environ.get("VERIF_SEED") or 0))
    ap.add_argument("--replay")
    ap.add_argument("--jobs", type=int)
    ap.add_argument("--max-cases", type=int)
    a = ap.parse_args()
    from harness import runner
    sys.exit(runner.run_property(a.pid, a.tier, a.seed, replay=a.replay, jobs=a.jobs, max_cases=a.max_cases))


if __name__ == "__main__":
    main()
