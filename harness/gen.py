"""Seeded / enumerated workload generators shared by the property modules.  Everything returned is JSON-able."""
import itertools, random
import numpy as np

BASE_SHAPES_QUICK = [[], [1], [3], [2, 3], [1, 3], [3, 1], [2, 1, 3], [2, 3, 2], [1, 1, 1], [2, 2, 1, 3]]
BASE_SHAPES_THOROUGH = BASE_SHAPES_QUICK + [[4], [1, 1], [3, 2], [4, 3], [2, 3, 4], [3, 1, 2], [1, 4, 1], [2, 2, 2, 2], [2, 1, 2, 3],
                                            [1, 2, 3, 1], [2, 1, 2, 1, 2]]


def rng_for(seed, *salt):
    return np.random.default_rng([int(seed) & 0x7fffffff] + [abs(hash_str(str(s))) % (2 ** 31) for s in salt])


def hash_str(s):
    h = 2166136261
    for ch in s.encode():
        h = ((h ^ ch) * 16777619) & 0xffffffff
    return h


def broadcast_patterns(target):
    """every operand shape broadcastable to `target`: drop leading dims, replace any subset of extents by 1"""
    target = list(target)
    out = []
    for drop in range(len(target) + 1):
        rest = target[drop:]
        idx = [i for i, e in enumerate(rest) if e != 1]
        for r in range(len(idx) + 1):
            for sub in itertools.combinations(idx, r):
                s = list(rest)
                for i in sub:
                    s[i] = 1
                if s not in out:
                    out.append(s)
    return out


def broadcast_pairs(target):
    pats = broadcast_patterns(target)
    res = []
    for a in pats:
        for b in pats:
            try:
                if list(np.broadcast_shapes(tuple(a), tuple(b))) == list(target):
                    res.append((a, b))
            except ValueError:
                pass
    return res


def all_dims(ndim):
    return list(range(-ndim, ndim))


def dim_tuples(ndim, maxlen=None):
    """every non-empty tuple of distinct (after normalisation) dims, mixed signs, one ordering + one reversed"""
    out = []
    for r in range(1, (maxlen or ndim) + 1):
        for comb in itertools.combinations(range(ndim), r):
            for signs in itertools.product([0, 1], repeat=r):
                t = [c - ndim if s else c for c, s in zip(comb, signs)]
                out.append(t)
                if r > 1:
                    out.append(t[::-1])
    return out


def values(rng, shape, vclass, dtype="float64"):
    shape = tuple(shape)
    n = int(np.prod(shape)) if shape else 1
    if vclass == "normal":
        a = rng.standard_normal(shape)
    elif vclass == "negative":
        a = -np.abs(rng.standard_normal(shape)) - 0.1
    elif vclass == "positive":
        a = rng.uniform(0.3, 3.0, shape)
    elif vclass == "pm_wellcond":
        a = rng.uniform(0.3, 3.0, shape) * rng.choice([-1.0, 1.0], shape)
    elif vclass == "intvalued":
        a = rng.integers(-2, 3, shape).astype(np.float64)
    elif vclass == "withzeros":
        a = rng.standard_normal(shape)
        a = np.where(rng.random(shape) < 0.4, 0.0, a)
    elif vclass == "nonneg-withzeros":
        # boundary of the domain of sqrt / log / fractional powers: exact zeros among positive values (values and gradients may be inf there;
        # used where only purity / determinism is judged)
        a = np.where(rng.random(shape) < 0.4, 0.0, rng.uniform(0.3, 3.0, shape))
    elif vclass == "large":
        a = rng.standard_normal(shape) * 1e3
    elif vclass == "tiny":
        a = rng.standard_normal(shape) * 1e-3
    elif vclass == "distinct":
        # all values distinct and separated by >= 0.37: no ties for max/min, margin for FD
        a = (rng.permutation(n).astype(np.float64) * 0.37 - 0.37 * n / 2 + 0.11).reshape(shape)
    elif vclass == "awayzero":
        a = rng.uniform(0.2, 2.0, shape) * rng.choice([-1.0, 1.0], shape)
    elif vclass == "prob":
        a = rng.uniform(0.05, 0.95, shape)
    elif vclass == "moderate":
        a = rng.uniform(-4, 4, shape)
    elif vclass == "special":
        # IEEE special values sprinkled over ordinary ones: nan, +-inf, -0.0
        a = rng.standard_normal(shape)
        pick = rng.random(shape)
        a = np.where(pick < 0.12, np.nan, a)
        a = np.where((pick >= 0.12) & (pick < 0.2), np.inf, a)
        a = np.where((pick >= 0.2) & (pick < 0.28), -np.inf, a)
        a = np.where((pick >= 0.28) & (pick < 0.36), -0.0, a)
    else:
        raise ValueError(vclass)
    a = np.asarray(a, dtype=np.float64).reshape(shape)
    if dtype == "float32":
        a = a.astype(np.float32)
    return a


def upstream(rng, shape, gclass):
    shape = tuple(shape)
    if gclass == "normal":
        g = rng.standard_normal(shape)
    elif gclass == "ones":
        g = np.ones(shape)
    elif gclass == "onehot":
        g = np.zeros(shape)
        if g.size:
            g.reshape(-1)[int(rng.integers(g.size))] = float(rng.uniform(0.5, 2.0))
    elif gclass == "scaled_up":
        g = rng.standard_normal(shape) * 1e3
    elif gclass == "scaled_down":
        g = rng.standard_normal(shape) * 1e-3
    elif gclass == "noncontig":
        if len(shape) == 0:
            g = rng.standard_normal(shape)
        else:
            big = rng.standard_normal((shape[0] * 2,) + shape[1:])
            g = big[::2]
    else:
        raise ValueError(gclass)
    return np.asarray(g, dtype=np.float64) if gclass != "noncontig" else g


G_CLASSES = ["normal", "onehot", "scaled_up", "noncontig", "ones", "scaled_down"]


# ---------------------------------------------------------------- index expressions
def enc_index(obj):
    if isinstance(obj, tuple):
        return {"t": "tuple", "v": [enc_index(o) for o in obj]}
    if obj is Ellipsis:
        return {"t": "ellipsis"}
    if obj is None:
        return {"t": "none"}
    if isinstance(obj, slice):
        return {"t": "slice", "v": [obj.start, obj.stop, obj.step]}
    if isinstance(obj, (int, np.integer)):
        return {"t": "int", "v": int(obj)}
    if isinstance(obj, list):
        if obj and isinstance(obj[0], bool):
            return {"t": "mask", "v": obj}
        return {"t": "ilist", "v": obj}
    if isinstance(obj, np.ndarray):
        if obj.dtype == bool:
            return {"t": "maskarr", "v": obj.tolist()}
        return {"t": "iarr", "v": obj.tolist()}
    raise TypeError(obj)


def dec_index(d):
    t = d["t"]
    if t == "tuple":
        return tuple(dec_index(x) for x in d["v"])
    if t == "ellipsis":
        return Ellipsis
    if t == "none":
        return None
    if t == "slice":
        return slice(*d["v"])
    if t == "int":
        return d["v"]
    if t == "ilist":
        return list(d["v"])
    if t == "mask":
        return list(d["v"])
    if t == "maskarr":
        return np.array(d["v"], dtype=bool)
    if t == "iarr":
        return np.array(d["v"], dtype=np.int64)
    raise ValueError(t)


def index_class(d):
    """mechanism class of an index expression (for signatures / coverage)"""
    kinds = set()

    def walk(x):
        t = x["t"]
        if t == "tuple":
            for y in x["v"]:
                walk(y)
        elif t == "slice":
            st = x["v"][2]
            kinds.add("slice-negstep" if (st is not None and st < 0) else ("slice-step" if st not in (None, 1) else "slice"))
        elif t in ("ilist", "iarr"):
            flat = np.array(x["v"]).reshape(-1).tolist()
            kinds.add("intarray-repeated" if len(set(flat)) < len(flat) else ("intarray-mixed-sign" if (min(flat) < 0 <= max(flat)) else "intarray"))
        elif t == "int":
            kinds.add("int-neg" if x["v"] < 0 else "int")
        else:
            kinds.add(t)
    walk(d)
    return "+".join(sorted(kinds))


def random_index(rng, shape):
    """random legal NumPy index expression for `shape` (rank >= 1)"""
    r = len(shape)
    mode = rng.integers(0, 10)
    if mode == 0:  # boolean mask over the first k dims
        k = int(rng.integers(1, r + 1))
        m = rng.random(tuple(shape[:k])) < 0.5
        return np.asarray(m)
    if mode == 1:  # integer array on the first dim with repeats
        L = shape[0]
        n = int(rng.integers(1, 5))
        return [int(v) for v in rng.integers(-L, L, n)]
    items = []
    used_ellipsis = False
    adv_used = False
    d = 0
    while d < r:
        c = rng.integers(0, 12)
        L = shape[d]
        if c == 0 and not used_ellipsis and d < r:
            items.append(Ellipsis); used_ellipsis = True
            skip = int(rng.integers(0, r - d + 1))
            d += skip
            continue
        if c == 1:
            items.append(None); continue
        if c in (2, 3):
            items.append(int(rng.integers(-L, L))); d += 1; continue
        if c == 4 and not adv_used:
            n = int(rng.integers(1, 4))
            items.append([int(v) for v in rng.integers(-L, L, n)]); adv_used = True; d += 1; continue
        # slice
        step = [None, 1, 2, -1, -2, 3][int(rng.integers(0, 6))]
        start = [None, int(rng.integers(-L, L + 1))][int(rng.integers(0, 2))]
        stop = [None, int(rng.integers(-L, L + 1))][int(rng.integers(0, 2))]
        items.append(slice(start, stop, step)); d += 1
        if rng.random() < 0.25:
            break
    if len(items) == 1 and rng.random() < 0.5:
        return items[0]
    return tuple(items)


def factorizations(n, maxrank=3):
    out = set()

    def rec(rem, cur):
        if len(cur) > maxrank:
            return
        if rem == 1 and cur:
            out.add(tuple(cur))
        for f in range(1, rem + 1):
            if rem % f == 0 and (f > 1 or len(cur) < 2):
                if f == 1 and rem != 1 and cur.count(1) >= 1:
                    continue
                rec(rem // f, cur + [f]) if f > 1 else (rec(rem, cur + [1]) if len(cur) < maxrank - 1 else None)
    rec(n, [])
    return sorted(out)


def as_storage(x, storage, rng, base_pool):
    """returns an array equal to x but stored as the requested kind of view"""
    x = np.asarray(x)
    if storage == "plain" or x.ndim == 0:
        return x.copy()
    if storage == "transposed":
        return np.ascontiguousarray(x.T).T
    if storage == "strided":
        big = np.empty((x.shape[0] * 2,) + x.shape[1:], dtype=x.dtype)
        big[...] = 7.25
        big[::2] = x
        return big[::2]
    if storage == "reshaped":
        flat = x.reshape(-1).copy()
        return flat.reshape(x.shape)
    if storage == "shared-base":
        # all operands of the case live in one base buffer, side by side
        buf = base_pool.setdefault(x.dtype.str, np.full(4096, 3.5, dtype=x.dtype))
        off = base_pool.get("off", 0)
        if off + x.size > buf.size:
            return x.copy()
        v = buf[off:off + x.size].reshape(x.shape)
        v[...] = x
        base_pool["off"] = off + x.size
        return v
    return x.copy()
