"""Child process of C19: runs one seeded program (twice in-process) and prints digests + the RNG tap log as JSON."""
import hashlib, json, os, sys

junk = [object() for _ in range(int(os.environ.get("VERIF_JUNK", "0")))]       # shifts the allocation layout
junk2 = [bytearray(64 + (i % 7)) for i in range(int(os.environ.get("VERIF_JUNK", "0")) // 10)]


def main():
    spec = json.load(open(sys.argv[1]))
    if os.environ.get("VERIF_COVERAGE"):        # reach monitor (tools/reach.sh), off in the checks
        import coverage, atexit
        root = os.path.realpath(os.environ.get("SYNAPGRAD_ROOT", "/repo"))
        cov = coverage.Coverage(data_file=os.path.join(os.environ["VERIF_COVERAGE"], f"C19.cov.{os.getpid()}"), branch=True,
                                include=[os.path.join(root, "synapgrad", "*")], config_file=False)
        cov.start()
        atexit.register(lambda: (cov.stop(), cov.save()))
    from harness import env, gen, programs
    ns = env.load(with_utils=spec["kind"] in ("split", "split-arrays", "onehot-strings", "loader-random-transform"))
    import numpy as np, random
    sg, nn = ns.sg, ns.nn
    tap = {"constructions": [], "draw_calls": {}}

    def from_lib():
        f = sys._getframe(2)
        depth = 0
        while f is not None and depth < 6:
            fn = os.path.realpath(f.f_code.co_filename)
            if fn.startswith(ns.root + os.sep):
                return os.path.relpath(fn, ns.root) + ":" + str(f.f_lineno)
            f = f.f_back
            depth += 1
        return None

    def wrap_ctor(mod, name, label):
        orig = getattr(mod, name)

        def w(*a, **k):
            site = from_lib()
            if site is not None:
                tap["constructions"].append({"what": label, "site": site, "seeded": bool(a or k)})
            return orig(*a, **k)
        try:
            setattr(mod, name, w)
        except (TypeError, AttributeError):
            pass
    def wrap_class(mod, name, label):
        orig = getattr(mod, name)
        try:
            class Tapped(orig):
                def __init__(self, *a, **k):
                    site = from_lib()
                    if site is not None:
                        tap["constructions"].append({"what": label, "site": site, "seeded": bool(a or k)})
                    try:
                        super().__init__(*a, **k)
                    except TypeError:
                        pass
            Tapped.__name__ = orig.__name__
            setattr(mod, name, Tapped)
        except TypeError:
            pass
    wrap_ctor(np.random, "default_rng", "numpy.random.default_rng")
    wrap_ctor(os, "urandom", "os.urandom")
    wrap_class(np.random, "RandomState", "numpy.random.RandomState")
    wrap_class(random, "Random", "random.Random")
    wrap_class(random, "SystemRandom", "random.SystemRandom")
    for fn in ("rand", "randn", "normal", "uniform", "randint", "shuffle", "permutation", "random", "choice"):
        orig = getattr(np.random, fn)

        def mk(orig, fn):
            def w(*a, **k):
                site = from_lib()
                if site is not None:
                    tap["draw_calls"][fn] = tap["draw_calls"].get(fn, 0) + 1
                return orig(*a, **k)
            return w
        setattr(np.random, fn, mk(orig, fn))

    persist = {}
    internal = []           # inconsistencies found inside one run (e.g. the k-th repetition of a call differing from the first)

    def run_once():
        h = hashlib.sha256()

        def put(a):
            a = np.ascontiguousarray(np.asarray(a))
            h.update(str(a.dtype).encode()); h.update(str(a.shape).encode()); h.update(a.tobytes())
        kind = spec["kind"]
        if spec.get("manual_seed") is not None:
            sg.manual_seed(spec["manual_seed"])
        if kind == "random-tensors":
            for shp in ([3], [2, 3], [4, 1, 2]):
                put(sg.rand(*shp).data); put(sg.randn(*shp).data); put(sg.normal(1.0, 2.0, *shp).data); put(sg.randint(0, 10, tuple(shp)).data)
            put(sg.rand((3, 2)).data)
            put(sg.randn(1).data)            # an odd number of Gaussian draws in total: the generator holds a cached second variate when the program ends
            # large draws (above 2^16 and 2^20 elements) come from the seeded stream like small ones
            put(sg.rand(70000).data); put(sg.randn(300, 300).data); put(sg.rand(3).data)
            if spec.get("thrice"):
                put(sg.randn(1100000).data[::1000]); put(sg.rand(2).data)
        elif kind == "initialisers":
            for name in ("uniform_", "normal_", "xavier_uniform_", "xavier_normal_", "kaiming_uniform_", "kaiming_normal_"):
                t = sg.empty(6, 5)
                getattr(ns.init, name)(t)
                put(t.data)
        elif kind == "layers":
            for m in (nn.Linear(5, 3), nn.Conv1d(2, 3, 3), nn.Conv2d(2, 2, (2, 3)), nn.BatchNorm1d(3), nn.Neuron(4)):
                for p in m.parameters():
                    put(p.data)
            try:
                # degenerate but legal widths: every parameter is still a function of the seed (never of what memory happened to hold:
                # unrelated buffers with other contents are allocated and released right before, differently in every repeat and process)
                persist["rep"] = persist.get("rep", 0) + 1
                val_ = float(persist["rep"] * 7 + int(os.environ.get("VERIF_JUNK", "0")) % 1000)
                for mk in (lambda: nn.Linear(0, 3), lambda: nn.Linear(4, 0), lambda: nn.Linear(1, 1), lambda: nn.Linear(0, 16)):
                    junk = [np.full(n_, val_, dtype=np.float32) for n_ in (3, 3, 16, 16, 12, 4, 1, 64) for _ in range(8)]; del junk
                    m = mk()
                    for p in m.parameters():
                        put(p.data)
            except Exception:
                put(np.zeros(1))
        elif kind == "dropout":
            d = nn.Dropout(spec.get("p", 0.4))
            x = sg.ones(6, 7, requires_grad=True)
            y = d(x); y.sum().backward()
            put(y.data); put(x.grad.data)
        elif kind == "mixed-dtype-join":
            # joining tensors of different dtypes of equal width (float features with the int32 tensor randint returns): one answer, whatever
            # the hash seed - or one refusal
            f32 = sg.rand(2, 3); i32 = sg.randint(0, 5, (2, 3)); f64 = sg.tensor(np.arange(6.0).reshape(2, 3), dtype=np.float64)
            i64 = sg.tensor(np.arange(6).reshape(2, 3), dtype=np.int64)
            for a_, b_ in ((f32, i32), (i32, f32), (f64, i64), (i64, f64), (f32, f64)):
                for join in (lambda x_, y_: sg.concat([x_, y_], 0), lambda x_, y_: sg.stack([x_, y_], 1), lambda x_, y_: sg.concat((x_, y_, x_), 1)):
                    try:
                        put(join(a_, b_).data)
                    except Exception as e:
                        put(np.frombuffer(type(e).__name__.encode()[:8].ljust(8), dtype=np.uint8))
        elif kind == "loader-random-transform":
            # random augmentation in the loader's transform and random consumption in the loop body (Dropout, noise) share the one seeded stream:
            # the order of the draws is fixed by the program, not by how long either side takes (delays are injected on alternating sides)
            import time as _time
            env.load(with_utils=True)
            D_ = sys.modules["synapgrad.nn.utils.data"]
            persist["lrt"] = persist.get("lrt", 0) + 1
            slow_body = persist["lrt"] % 2 == 1
            Xd = np.arange(48, dtype=np.float32).reshape(12, 4); yd = np.arange(12, dtype=np.float32)

            def aug(loader, xb, yb):
                if not slow_body:
                    _time.sleep(0.004)
                return ns.Tensor(np.array(xb)) + sg.randn(*np.shape(xb)) * 0.1, ns.Tensor(np.array(yb))
            dl = D_.DataLoader(Xd, yd, 3, transform=aug)
            drop = nn.Dropout(0.5)
            for epoch in range(2):
                for xb, yb in dl:
                    if slow_body:
                        _time.sleep(0.004)
                    put(drop(xb).data); put(sg.rand(2).data); put(yb.data)
            # an exception that leaves a no_grad block and is handled by the caller: the rest of the program (and its repetition) is unaffected
            try:
                with sg.no_grad():
                    sg.ones(2, 3) @ sg.ones(2, 3)
            except Exception:
                pass
            w_ = sg.randn(3, 2); w_.requires_grad = True
            (w_ * w_).sum().backward()
            put(w_.grad.data)
        elif kind == "dropout-untracked":
            # Monte-Carlo dropout / a validation pass without eval(): Dropout in training mode under no_grad draws from the seeded stream as well
            d = nn.Dropout(spec.get("p", 0.4))
            with sg.no_grad():
                put(d(sg.ones(6, 7)).data)
                put(d(sg.ones(3, 5, requires_grad=True)).data)
            put(d(sg.ones(4, 4)).data)                       # constant input, tracking on
            mseq = nn.Sequential(nn.Linear(5, 6), nn.Dropout(0.3), nn.Linear(6, 2))
            with sg.no_grad():
                put(mseq(sg.ones(4, 5)).data)
            put(sg.rand(3).data)
        elif kind == "repeat-backward":
            # one graph, differentiated again and again (gradients reset in between) with the same upstream-gradient tensor: every call yields the
            # same bits - results do not depend on how often the computation has been repeated
            net = nn.Sequential(nn.Linear(5, 6), nn.Tanh(), nn.Linear(6, 4))
            X = sg.randn(7, 5); X.requires_grad = True
            tgt = sg.randint(0, 4, (7,))
            soft = sg.rand(7, 4)
            logits = net(X)
            per_sample = nn.CrossEntropyLoss(reduction="none")(logits, tgt)                      # (7,)
            root = per_sample + sg.log_softmax(logits, 1).sum(1) * 0.1 + nn.BCEWithLogitsLoss(reduction="none")(logits, soft).sum(1) * 0.1 \
                + (sg.softmax(logits, 1) * soft).sum(1) + nn.MSELoss(reduction="none")(sg.sigmoid(logits), soft).sum(1)
            g_t = sg.randn(7)
            leaves = [X] + list(net.parameters())
            per_call = []
            for call_no in range(4):
                for l_ in leaves:
                    l_._grad = None
                root.backward(g_t)
                hh = hashlib.sha256()
                for l_ in leaves:
                    a_ = np.ascontiguousarray(l_.grad.data)
                    hh.update(str(a_.dtype).encode()); hh.update(str(a_.shape).encode()); hh.update(a_.tobytes())
                per_call.append(hh.hexdigest())
            if len(set(per_call)) != 1:
                internal.append(f"backward call number {[i + 1 for i, d_ in enumerate(per_call) if d_ != per_call[0]][0]} over the same graph (gradients reset in between, same "
                                "upstream-gradient tensor) gave other leaf gradients than the first call")
            put(np.frombuffer(bytes.fromhex(per_call[0]), dtype=np.uint8)); put(g_t.data); put(root.data)
        elif kind == "reseed-existing-model":
            # the model (with Dropout) exists before manual_seed is called: seeding must still pin its randomness
            if "model" not in persist:
                persist["model"] = nn.Sequential(nn.Linear(6, 8), nn.Dropout(0.5), nn.ReLU(), nn.Dropout(0.2), nn.Linear(8, 3))
                persist["x"] = sg.ones(5, 6)
                persist["drop"] = nn.Dropout(0.4)
            sg.manual_seed(spec["manual_seed"])
            put(persist["model"](persist["x"]).data)
            put(persist["drop"](sg.ones(4, 9)).data)
            put(sg.rand(3).data)
        elif kind == "retrain-existing-model":
            # LR sweep / k-fold idiom: the same model object is re-initialised in place and trained again with a NEW optimizer;
            # after manual_seed every repeat must be the same run (no state of an earlier optimizer may leak into the next one)
            if "rmodel" not in persist:
                persist["rmodel"] = nn.Sequential(nn.Linear(4, 5), nn.ReLU(), nn.Linear(5, 2))
                persist["rX"] = ns.Tensor(np.linspace(-1, 1, 24).reshape(6, 4).astype(np.float32))
                persist["rt"] = ns.Tensor(np.array([0, 1, 1, 0, 1, 0], dtype=np.int64))
            model = persist["rmodel"]
            sg.manual_seed(spec["manual_seed"])             # (building the model above consumed draws in the first repeat)
            for m in model.submodules():
                if hasattr(m, "reset_parameters"):
                    m.reset_parameters()
            for make in (lambda ps: ns.optim.SGD(ps, lr=0.05, momentum=0.9), lambda ps: ns.optim.Adam(ps, lr=0.01),
                         lambda ps: ns.optim.SGD(ps, lr=0.05, momentum=0.5, nesterov=True, weight_decay=0.01)):
                opt = make(model.parameters())
                for step in range(3):
                    loss = nn.CrossEntropyLoss()(model(persist["rX"]), persist["rt"])
                    opt.zero_grad(); loss.backward(); opt.step()
                    put(loss.data)
            for p in model.parameters():
                put(p.data)
        elif kind == "split-arrays":
            # the caller's arrays are reused run after run: the split may not reorder or otherwise change them
            if "sX" not in persist:
                persist["sX"] = np.arange(46, dtype=np.float32).reshape(23, 2)
                persist["sy"] = np.arange(23, dtype=np.float32)
                persist["sX64"] = np.arange(40, dtype=np.float64).reshape(20, 2)
                persist["sy_int"] = np.arange(20)
            for X, y in ((persist["sX"], persist["sy"]), (persist["sX64"], persist["sy_int"])):
                tr, te, va = ns.data.split_dataset(X, y, test_split=0.3, val_split=0.2, shuffle=True)
                for part in (tr, te, va):
                    put(part[0]); put(part[1])
                put(X); put(y)
        elif kind == "late-import-utils":
            # the data utilities are imported for the first time AFTER seeding (a function-local import, a later notebook cell): importing draws nothing
            put(sg.rand(4).data)
            env.load(with_utils=True)
            import synapgrad.nn.utils.data as D_
            put(sg.rand(4).data); put(sg.randn(3).data)
            tr, te, va = D_.split_dataset([[i, i + 0.5] for i in range(11)], list(range(11)), test_split=0.3, shuffle=True)
            put(tr[0]); put(te[0])
        elif kind == "singular-points":
            # gradients at points where the derivative is infinite / undefined are still a function of the inputs only (inf / nan, never stale memory)
            for rep_ in range(3):
                junk = [np.full(n_, float(7 * rep_ + 1), dtype=np.float64) for n_ in (6, 6, 6, 12, 3) for _ in range(6)]; del junk
                x = sg.tensor(np.array([0.0, 4.0, 0.0, 9.0, 0.0, 1.0]), requires_grad=True, dtype=np.float64)
                with np.errstate(all="ignore"):
                    for f in (lambda t: t.sqrt(), lambda t: (t * 1.0) ** 0.5, lambda t: t.log(), lambda t: 1.0 / t, lambda t: t / t):
                        x._grad = None
                        y = f(x + 0.0)
                        y.backward(sg.tensor(np.ones(6), dtype=np.float64))
                        put(y.data); put(x._grad if x._grad is not None else np.zeros(1))
        elif kind == "train-conv":
            # windows that are disjoint but do not tile the input: every cell of the input gradient must still be defined
            model = nn.Sequential(nn.Conv2d(1, 2, 2), nn.MaxPool2d(2), nn.Flatten(), nn.Linear(2 * 3 * 3, 2))
            opt = ns.optim.SGD(model.parameters(), lr=0.05, momentum=0.5)
            X = sg.randn(4, 1, 8, 8); X.requires_grad = True
            t = sg.randint(0, 2, (4,))
            junk_ = [np.full(64, float(i)) for i in range(spec.get("junk_arrays", 50))]; del junk_
            for step in range(3):
                out = model(X)
                loss = nn.CrossEntropyLoss()(out, t) + sg.avg_pool2d(X, 3, 2, 0, 2).sum() * 1e-3 + sg.max_pool1d(X.reshape((4, 8, 8)), 2, 3).sum() * 1e-3
                opt.zero_grad(); loss.backward(); opt.step()
                put(loss.data); put(X.grad.data)
            for p in model.parameters():
                put(p.data)
        elif kind == "apply-init":
            spacer = [object() for _ in range(int(os.environ.get("VERIF_JUNK", "0")) // 100 + 3)]
            layers = []
            for i in range(6):
                layers.append(nn.Linear(3 + i, 4))
                spacer.append([bytearray(48 + 16 * i) for _ in range(1 + (int(os.environ.get("VERIF_JUNK", "0")) // 1000) % 7)])
            model = nn.Sequential(*layers)

            def init_fn(m):
                if isinstance(m, nn.Linear):
                    ns.init.xavier_uniform_(m.weight); ns.init.normal_(m.bias)
            model.apply(init_fn)
            for p in model.parameters():
                put(p.data)
        elif kind == "onehot-strings":
            labels = ["cat", "dog", "emu", "cat", "asp", "dog", "yak", "emu"]
            put(ns.data.one_hot_encode(labels))
            put(ns.data.one_hot_encode(np.array(labels)))
        elif kind == "split":
            X = [[i, i + 0.5] for i in range(23)]; y = list(range(23))
            tr, te, va = ns.data.split_dataset(X, y, test_split=0.3, val_split=0.2, shuffle=True)
            for part in (tr, te, va):
                put(part[0]); put(part[1])
        elif kind == "train":
            model = nn.Sequential(nn.Linear(6, 8), nn.BatchNorm1d(8), nn.ReLU(), nn.Dropout(0.25), nn.Linear(8, 3))
            opt = getattr(ns.optim, spec["opt"])(model.parameters(), lr=0.05)
            X = sg.randn(16, 6); t = sg.randint(0, 3, (16,))
            lossf = nn.CrossEntropyLoss()
            for step in range(spec["steps"]):
                out = model(X)
                pen = None
                for p in model.parameters():          # wide fan-in: a penalty summing over every parameter
                    term = (p * p).sum()
                    pen = term if pen is None else pen + term
                loss = lossf(out, t) + pen * 1e-3
                opt.zero_grad(); loss.backward(); opt.step()
                put(loss.data)
            for p in model.parameters():
                put(p.data); put(p.grad.data)
            for m in model.submodules():
                if hasattr(m, "running_mean") and m.running_mean is not None:
                    put(m.running_mean.data); put(m.running_var.data)
        elif kind == "program":
            rng = gen.rng_for(spec["pseed"], "prog")
            prog, leaf_vals = programs.generate(rng, spec["n_instr"], spec["n_leaves"], allow_kinks=True)
            prog = programs.fix_args(json.loads(json.dumps(prog)))
            ts = [ns.Tensor(np.array(v, dtype=np.float64).reshape(tuple(l["shape"])), requires_grad=l["req"]) for v, l in zip(leaf_vals, prog["leaves"])]
            vals = programs.run_library(ns, prog, ts)
            out = vals[prog["final"]]
            # wide fan-in on top: every leaf feeds 40 extra terms
            for t_ in ts:
                if t_.requires_grad:
                    for k in range(40):
                        out = out + (t_ * (0.01 * (k + 1))).sum()
            put(out.data)
            if out.requires_grad:
                out.backward()
                for t_ in ts:
                    if t_.grad is not None:
                        put(t_.grad.data)
        else:
            raise KeyError(kind)
        return h.hexdigest()

    d1 = run_once()
    d2 = run_once()
    d3 = run_once() if spec.get("thrice") else d2
    print(json.dumps({"d1": d1, "d2": d2, "d3": d3, "tap": tap, "internal": internal[:3]}))


if __name__ == "__main__":
    main()
