"""Catalogue of the nn operations / layers / losses: how to call each form, operand specs, reference, FD mode, grids.

case = {"op", "form", "a": args, "operands": [{"name","shape","vclass","diff","int"}], ...}
build(L, ts, a) -> output Tensor; it may replace entries of ts by the module's own Parameter objects.
"""
import itertools, math
import numpy as np
from .ref import nnref as R
from .ref.nnref import Reject
from . import gen


def tup(x):
    return tuple(x) if isinstance(x, list) else x


class NNOp:
    def __init__(self, name, forms, operands, ref, mode="affine", documented=None, argclass=None, kink=None):
        self.name, self.forms, self.operands, self.ref, self._mode = name, forms, operands, ref, mode
        self._doc, self._argclass, self.kink = documented, argclass, kink

    def mode(self, a):
        return self._mode(a) if callable(self._mode) else self._mode

    def documented(self, a):
        return True if self._doc is None else bool(self._doc(a))

    def argclass(self, a):
        return self._argclass(a) if self._argclass else ""


NNOPS = {}
STATE = {}


def reg(op):
    NNOPS[op.name] = op


def X(shape, vclass="normal", diff=True, name="x", int_=False):
    return {"name": name, "shape": list(shape), "vclass": vclass, "diff": diff, "int": int_}


# ---------------------------------------------------------------------------------------- activations
def _act(name, fn_name, cls_name, ref, extra=lambda a: (), cls_extra=lambda a: (), mode="richardson", vclass="awayzero"):
    reg(NNOp(name, {
        "functional": lambda L, t, a: getattr(L.sg, fn_name)(t[0], *extra(a)),
        "module": lambda L, t, a: getattr(L.nn, cls_name)(*cls_extra(a))(t[0]),
    }, lambda a: [X(a["shape"], a.get("vclass", vclass))], ref, mode=mode, kink=name in ("relu", "leaky_relu", "selu"),
        argclass=lambda a: f"rank{len(a['shape'])}"))


_act("relu", "relu", "ReLU", lambda xs, a: R.relu(xs[0]))
_act("leaky_relu", "leaky_relu", "LeakyReLU", lambda xs, a: R.leaky_relu(xs[0], a["slope"]), extra=lambda a: (a["slope"],),
     cls_extra=lambda a: (a["slope"],))
_act("selu", "selu", "SELU", lambda xs, a: R.selu(xs[0]))
_act("tanh", "tanh", "Tanh", lambda xs, a: np.tanh(xs[0]), vclass="normal")
_act("sigmoid", "sigmoid", "Sigmoid", lambda xs, a: R.sigmoid(xs[0]), vclass="normal")

for _nm, _cls, _ref in (("softmax", "Softmax", R.softmax), ("log_softmax", "LogSoftmax", R.log_softmax)):
    reg(NNOp(_nm, {
        "functional": (lambda nm: lambda L, t, a: getattr(L.sg, nm)(t[0], a["dim"]))(_nm),
        "module": (lambda cls: lambda L, t, a: getattr(L.nn, cls)(a["dim"])(t[0]))(_cls),
    }, lambda a: [X(a["shape"], a.get("vclass", "normal"))], (lambda rf: lambda xs, a: rf(xs[0], a["dim"]))(_ref), mode="richardson",
        argclass=lambda a: f"rank{len(a['shape'])},dim={'neg' if a['dim'] < 0 else a['dim']}" if len(a["shape"]) != 2 or a["dim"] != 1 else "rank2,dim=1"))


# ---------------------------------------------------------------------------------------- losses
def _loss(name, fn_name, cls_name, ref, operands, mode="richardson"):
    def fwd_functional(L, t, a):
        return getattr(L.sg, fn_name)(t[0], t[1])

    def fwd_module(L, t, a):
        return getattr(L.nn, cls_name)(reduction=a["reduction"])(t[0], t[1])

    def rf(xs, a):
        l = ref(xs[0], xs[1])
        return R.reduce_loss(l, a["reduction"]) if a["form_is_module"] else l
    reg(NNOp(name, {"functional": fwd_functional, "module": fwd_module}, operands, rf, mode=mode,
             argclass=lambda a: f"reduction={a['reduction']}" if a["form_is_module"] else "elementwise"))


_loss("mse_loss", "mse_loss", "MSELoss", R.mse, lambda a: [X(a["shape"], "normal", name="pred"), X(a["shape"], "normal", name="target")])
_loss("bce_loss", "binary_cross_entropy", "BCELoss", R.bce,
      lambda a: [X(a["shape"], "prob", name="pred"), X(a["shape"], a.get("tclass", "prob"), diff=True, name="target")])
_loss("bce_with_logits", "binary_cross_entropy_with_logits", "BCEWithLogitsLoss", R.bce_logits,
      lambda a: [X(a["shape"], a.get("vclass", "moderate"), name="logits"), X(a["shape"], a.get("tclass", "prob"), diff=True, name="target")])
_loss("nll_loss", "nll_loss", "NLLLoss", R.nll,
      lambda a: [X([a["N"], a["C"]], "normal", name="logp"), X([a["N"]], "labels", diff=False, name="target", int_=True)], mode="affine")
_loss("cross_entropy", "cross_entropy", "CrossEntropyLoss", R.cross_entropy,
      lambda a: [X([a["N"], a["C"]], a.get("vclass", "normal"), name="logits"), X([a["N"]], "labels", diff=False, name="target", int_=True)])


# ---------------------------------------------------------------------------------------- linear
def _lin_ops(a):
    ops = [X(a["xshape"]), X([a["out"], a["xshape"][-1]], name="weight")]
    if a["bias"]:
        ops.append(X([a["out"]], "zeros" if a.get("zero_bias") else "normal", name="bias"))
    return ops


def _linear_module(L, t, a):
    cls = L.nn.Neuron if a.get("neuron") else L.nn.Linear
    m = cls(a["xshape"][-1], bias=a["bias"]) if a.get("neuron") else cls(a["xshape"][-1], a["out"], bias=a["bias"])
    m.weight.data = t[1].data
    t[1] = m.weight
    if a["bias"]:
        m.bias.data = t[2].data
        t[2] = m.bias
    return m(t[0])


reg(NNOp("linear", {
    "functional": lambda L, t, a: L.sg.linear(t[0], t[1], t[2] if a["bias"] else None),
    "module": _linear_module,
}, _lin_ops, lambda xs, a: R.linear(xs[0], xs[1], xs[2] if a["bias"] else None),
    documented=lambda a: len(a["xshape"]) == 2, argclass=lambda a: f"x{len(a['xshape'])}d,bias={a['bias']}" + (",zero-bias" if a.get("zero_bias") else "") + (",many-samples" if a["xshape"][0] > 64 else "")))


# ---------------------------------------------------------------------------------------- Flatten layer (reach monitor: no workload constructed it)
def _flatten_ref(xs, a):
    x = xs[0]
    r = x.ndim
    s_, e_ = a.get("start", 1), a.get("end", -1)
    if r == 0:
        return x.reshape(1)
    s2, e2 = s_ % r if -r <= s_ < r else None, e_ % r if -r <= e_ < r else None
    if s2 is None or e2 is None or s2 > e2:
        return Reject("dims out of range / start after end")
    return x.reshape(x.shape[:s2] + (int(np.prod(x.shape[s2:e2 + 1])),) + x.shape[e2 + 1:])


def _flatten_module(L, t, a):
    if a.get("defaults"):
        return L.nn.Flatten()(t[0])
    if a.get("kw"):
        return L.nn.Flatten(start_dim=a["start"], end_dim=a["end"])(t[0])
    return L.nn.Flatten(a["start"], a["end"])(t[0])


reg(NNOp("flatten_layer", {"module": _flatten_module}, lambda a: [X(a["shape"])], _flatten_ref, mode="affine",
         argclass=lambda a: "defaults" if a.get("defaults") else f"rank{len(a['shape'])},start={a['start']},end={a['end']}"))


# ---------------------------------------------------------------------------------------- conv / pool / unfold / fold
def _geo_class(a):
    ks = a["kernel"] if isinstance(a["kernel"], list) else [a["kernel"]]
    ds = a["dilation"] if isinstance(a["dilation"], list) else [a["dilation"]]
    ps = a["padding"] if isinstance(a["padding"], list) else [a["padding"]]
    ss = a["stride"] if isinstance(a["stride"], list) else [a["stride"]]
    parts = []
    if isinstance(a["padding"], str):
        parts.append("padding=" + a["padding"])
        ps = [0]
    if len(set(ks)) > 1:
        parts.append("nonsquare")
    if any(d > 1 for d in ds):
        parts.append("dilated")
    if any(p > 0 for p in ps):
        parts.append("padded")
    if any((s or 1) > k for s, k in zip(ss * len(ks), ks)):
        parts.append("stride>kernel")
    if any((s or k) >= k and d > 1 and k > 1 for s, k, d in zip(ss * len(ks), ks, ds * len(ks))):
        parts.append("interleaved")
    if a.get("xshape") and max(a["xshape"][:2]) > 64:
        parts.append("many-samples-or-channels")
    parts.append("argform=" + ("tuple" if isinstance(a["kernel"], list) else "int"))
    if a.get("zero_bias"):
        parts.append("zero-bias")
    return ",".join(parts)


def _conv_ops(nd):
    def f(a):
        k = a["kernel"] if isinstance(a["kernel"], list) else [a["kernel"]] * nd
        ops = [X(a["xshape"]), X([a["cout"], a["xshape"][1]] + list(k), name="weight")]
        if a["bias"]:
            ops.append(X([a["cout"]], "zeros" if a.get("zero_bias") else "normal", name="bias"))
        return ops
    return f


def _conv_ref(nd):
    def f(xs, a):
        pad = a["padding"]
        k = a["kernel"] if isinstance(a["kernel"], list) else [a["kernel"]] * nd
        d = a["dilation"] if isinstance(a["dilation"], list) else [a["dilation"]] * nd
        if pad == "valid":
            pad = 0
        if pad == "same":
            s = a["stride"] if isinstance(a["stride"], list) else [a["stride"]] * nd
            if any(v != 1 for v in s):
                raise Reject("same with stride")
            tot = [d[i] * (k[i] - 1) for i in range(nd)]
            x = xs[0]
            # PyTorch 'same': total padding d*(k-1), extra on the right when odd
            padw = [(0, 0), (0, 0)] + [(t // 2, t - t // 2) for t in tot]
            xp = np.pad(x, padw)
            return R.conv_nd(xp, xs[1], xs[2] if a["bias"] else None, 1, 0, d, nd)
        return R.conv_nd(xs[0], xs[1], xs[2] if a["bias"] else None, a["stride"], pad, a["dilation"], nd)
    return f


def _conv_functional(nd):
    def f(L, t, a):
        fn = L.sg.conv1d if nd == 1 else L.sg.conv2d
        return fn(t[0], t[1], t[2] if a["bias"] else None, tup(a["stride"]), tup(a["padding"]), tup(a["dilation"]))
    return f


def _conv_module(nd):
    def f(L, t, a):
        cls = L.nn.Conv1d if nd == 1 else L.nn.Conv2d
        m = cls(a["xshape"][1], a["cout"], tup(a["kernel"]), stride=tup(a["stride"]), padding=tup(a["padding"]), dilation=tup(a["dilation"]),
                bias=a["bias"])
        m.weight.data = t[1].data
        t[1] = m.weight
        if a["bias"]:
            m.bias.data = t[2].data
            t[2] = m.bias
        return m(t[0])
    return f


for _nd in (1, 2):
    reg(NNOp(f"conv{_nd}d", {"functional": _conv_functional(_nd), "module": _conv_module(_nd)}, _conv_ops(_nd), _conv_ref(_nd),
             argclass=_geo_class, documented=lambda a: True))


def _pool(nd, kind):
    fname = f"{kind}_pool{nd}d"
    cname = f"{'Max' if kind == 'max' else 'Avg'}Pool{nd}d"

    def functional(L, t, a):
        return getattr(L.sg, fname)(t[0], tup(a["kernel"]), tup(a["stride"]), tup(a["padding"]), tup(a["dilation"]))

    def functional_defaults(L, t, a):
        return getattr(L.sg, fname)(t[0], tup(a["kernel"]))

    def module(L, t, a):
        return getattr(L.nn, cname)(tup(a["kernel"]), tup(a["stride"]), tup(a["padding"]), tup(a["dilation"]))(t[0])
    reg(NNOp(fname, {"functional": functional, "module": module},
             lambda a: [X(a["xshape"], a.get("vclass", "distinct" if kind == "max" else "normal"))],
             lambda xs, a: R.pool_nd(xs[0], a["kernel"], a["stride"], a["padding"], a["dilation"], nd, kind),
             mode="richardson" if kind == "max" else "affine", argclass=_geo_class, kink=(kind == "max")))


for _nd in (1, 2):
    for _k in ("max", "avg"):
        _pool(_nd, _k)

reg(NNOp("unfold", {
    "functional": lambda L, t, a: L.sg.unfold(t[0], tup(a["kernel"]), tup(a["dilation"]), tup(a["stride"]), tup(a["padding"]), a.get("pad_value", 0)),
    "module": lambda L, t, a: L.nn.Unfold(tup(a["kernel"]), tup(a["stride"]), tup(a["padding"]), tup(a["dilation"]), a.get("pad_value", 0))(t[0]),
}, lambda a: [X(a["xshape"], a.get("vclass", "normal"))],
    lambda xs, a: R.unfold(xs[0], a["kernel"], a["dilation"], a["stride"], a["padding"], a.get("pad_value", 0)), argclass=_geo_class))


def _fold_ops(a):
    k = R.pair(a["kernel"])
    H, W = a["output_size"]
    d, s, p = R.pair(a["dilation"]), R.pair(a["stride"]), R.pair(a["padding"])
    L = R.out_len(H, k[0], s[0], p[0], d[0]) * R.out_len(W, k[1], s[1], p[1], d[1])
    return [X([a["N"], a["C"] * k[0] * k[1], L])]


reg(NNOp("fold", {
    "functional": lambda L, t, a: L.sg.fold(t[0], tuple(a["output_size"]), tup(a["kernel"]), tup(a["dilation"]), tup(a["stride"]), tup(a["padding"])),
    "module": lambda L, t, a: L.nn.Fold(tuple(a["output_size"]), tup(a["kernel"]), tup(a["stride"]), tup(a["padding"]), tup(a["dilation"]))(t[0]),
}, _fold_ops, lambda xs, a: R.fold(xs[0], a["output_size"], a["kernel"], a["dilation"], a["stride"], a["padding"]), argclass=_geo_class))


# ---------------------------------------------------------------------------------------- batch norm
def _bn_ops(a):
    C = a["xshape"][1]
    ops = [X(a["xshape"], a.get("vclass", "bn_x"))]
    if a["affine"] == "weight-only":
        ops += [X([C], "pm_wellcond", name="gamma")]
    elif a["affine"] == "bias-only":
        ops += [X([C], "normal", name="beta")]
    elif a["affine"]:
        ops += [X([C], "pm_wellcond", name="gamma"), X([C], "normal", name="beta")]
    if a["track"]:
        ops += [X([C], "normal", diff=False, name="running_mean"), X([C], "runvar", diff=False, name="running_var")]
    return ops


def _bn_split(xs, a):
    i = 1
    g = b = rm = rv = None
    if a["affine"] == "weight-only":          # the two optional affine operands of the functional form are independent
        g = xs[1]
        i = 2
    elif a["affine"] == "bias-only":
        b = xs[1]
        i = 2
    elif a["affine"]:
        g, b = xs[1], xs[2]
        i = 3
    if a["track"]:
        rm, rv = xs[i], xs[i + 1]
    return g, b, rm, rv


def _hist_base(shape):
    n = int(np.prod(shape))
    return (((np.arange(n) * 7919) % 23) * 0.37 - 3.1).reshape(shape)


def _bn_functional(L, t, a):
    g, b, rm, rv = _bn_split(t, a)
    T = L.Tensor
    # running statistics are state: fresh copies per call so that the caller's operand arrays stay as given
    rmt = T(rm.data.copy()) if rm is not None else None
    rvt = T(rv.data.copy()) if rv is not None else None
    # the functional form is called with the caller's `training` flag as given (training=False without running statistics is legal:
    # the forward then normalises with the batch statistics)
    out = L.sg.batch_norm(t[0], g, b, rmt, rvt, a["training"], a["momentum"], a["eps"])
    STATE["bn"] = (rmt, rvt)
    if a.get("second_forward"):
        # a later training-mode call on the same buffers, before the first output is differentiated
        x2 = T(np.asarray(t[0].data) * 0.5 + 3.0)
        L.sg.batch_norm(x2, g, b, rmt, rvt, True, 0.9, a["eps"])
    return out


def _bn_module(L, t, a):
    cls = L.nn.BatchNorm2d if len(a["xshape"]) == 4 else L.nn.BatchNorm1d
    m = cls(a["xshape"][1], eps=a["eps"], momentum=a["momentum"], affine=a["affine"], track_running_stats=a["track"], dtype=t[0].dtype.type)
    g, b, rm, rv = _bn_split(t, a)
    if a["affine"]:
        m.weight.data = t[1].data
        m.bias.data = t[2].data
        t[1], t[2] = m.weight, m.bias
    if a["track"]:
        m.running_mean.data = rm.data.copy()
        m.running_var.data = rv.data.copy()
    if a.get("history"):
        # train(A) -> eval(X) -> train(B) before the forward under test: with momentum=None the running statistics must be the
        # plain average of the statistics of the *training* batches only
        xa = _hist_base(t[0].shape).astype(t[0].dtype)          # fixed batches (independent of the operand values)
        m.train(); m(L.Tensor(xa * 1.5 + 1.0))
        m.eval(); m(L.Tensor(xa * 0.25))
        m.train(); m(L.Tensor(xa * 0.5 - 2.0))
    m.train() if a["training"] else m.eval()
    STATE["bn"] = (m.running_mean, m.running_var)
    out = m(t[0])
    if a.get("second_forward"):
        was = m.training
        m.train()
        m.momentum = 0.9
        m(L.Tensor(np.asarray(t[0].data) * 0.5 + 3.0))
        m.train() if was else m.eval()
    return out


def _bn_ref(xs, a):
    g, b, rm, rv = _bn_split(xs, a)
    training = a["training"] or not a["track"]
    if a.get("history"):
        xa = _hist_base(xs[0].shape)
        mom = a["momentum"]
        _, rm, rv = R.batch_norm(xa * 1.5 + 1.0, g, b, rm, rv, True, 1.0 if mom is None else mom, a["eps"])          # cumulative average: factor 1/1
        _, rm, rv = R.batch_norm(xa * 0.5 - 2.0, g, b, rm, rv, True, 0.5 if mom is None else mom, a["eps"])          # factor 1/2
    y, nm, nv = R.batch_norm(xs[0], g, b, rm, rv, training, a["momentum"] if a["momentum"] is not None else 0.0, a["eps"])
    return y


reg(NNOp("batch_norm", {"functional": _bn_functional, "module": _bn_module}, _bn_ops, _bn_ref,
         mode=lambda a: "richardson" if (a["training"] or not a["track"]) else "affine",
         argclass=lambda a: f"training={a['training']},affine={a['affine']},track={a['track']},rank{len(a['xshape'])}" + (",then-training-forward" if a.get("second_forward") else "") + (",after-train-eval-train-history" if a.get("history") else "")))


# ---------------------------------------------------------------------------------------- dropout
def _dropout(L, t, a):
    m = L.nn.Dropout(a["p"])
    m.train() if a["training"] else m.eval()
    np.random.seed(a["mask_seed"])
    out = m(t[0])
    if a.get("second_forward"):
        m(L.Tensor(np.asarray(t[0].data) * 0.5 + 1.0))        # the same module is called again before the first output is differentiated
    return out


reg(NNOp("dropout", {"module": _dropout}, lambda a: [X(a["shape"], "shifted")], None, mode="affine",
         argclass=lambda a: f"p={a['p']},training={a['training']}" + (",then-second-forward" if a.get("second_forward") else "")))


# ---------------------------------------------------------------------------------------- values
def operand_values(rng, spec, a):
    vc = spec["vclass"]
    shape = tuple(spec["shape"])
    if vc == "labels":
        return rng.integers(0, a["C"], shape)
    if vc == "bn_x":
        return rng.standard_normal(shape) * 2.0 + 1.0
    if vc == "runvar":
        return rng.uniform(0.25, 9.0, shape)
    if vc == "shifted":
        return rng.standard_normal(shape) + 3.0
    if vc == "hard01":
        return rng.integers(0, 2, shape).astype(np.float64)
    if vc == "zeros":
        return np.zeros(shape)
    if vc == "offset":
        return rng.standard_normal(shape) * 0.5 + 300.0          # |mean|/std = 600: a one-pass variance cancels catastrophically in float32
    if vc == "huge":
        v_ = np.asarray(rng.uniform(-800.0, 800.0, shape), dtype=np.float64)
        # never left to the draw: values beyond the exp limits of float32 (88.7) and float64 (709.8), on both sides
        plant = [750.0, -750.0, 95.0, -95.0, 720.0, -100.0]
        if v_.ndim == 0:
            return np.asarray(plant[int(rng.integers(len(plant)))])
        flat = v_.reshape(-1)
        pos = rng.permutation(flat.size)[:len(plant)]
        for k_, i_ in enumerate(pos):
            flat[i_] = plant[k_]
        return flat.reshape(v_.shape)
    if vc == "tails":
        # where a squashing function is tiny but far from underflow: relative accuracy matters there
        return rng.uniform(16.0, 80.0, shape) * rng.choice([-1.0, -1.0, -1.0, 1.0], shape)
    if vc == "negbig":
        return -1e3 - np.abs(rng.standard_normal(shape)) * 1e2
    if vc == "poscode":
        idx = np.indices(shape)
        w = [1000, 100, 10, 1][-len(shape):] if len(shape) <= 4 else [1] * len(shape)
        return sum(i * wi for i, wi in zip(idx, w)).astype(np.float64) + 1.0
    return gen.values(rng, shape, vc)


# ---------------------------------------------------------------------------------------- grids
def geo1d(Lmax, kmax=3, smax=3, dmax=2, pool=False):
    out = []
    for L in range(1, Lmax + 1):
        for k in range(1, kmax + 1):
            for d in range(1, dmax + 1):
                ext = d * (k - 1) + 1
                pmax = ext // 2 if pool else min(ext // 2 + 1, 3)
                if pool:
                    pmax = k // 2      # PyTorch: pad should be at most half of kernel size
                for p in range(0, pmax + 1):
                    for s in range(1, smax + 1):
                        if (L + 2 * p - ext) // s + 1 >= 1 and L + 2 * p - ext >= 0:
                            out.append((L, k, s, p, d))
    return out


def grid(name, tier, rng):
    th = tier == "thorough"
    out = []
    act_shapes = [[], [3], [2, 3], [2, 1, 3], [2, 2, 1, 2]] + ([[1], [4, 2], [3, 2, 2]] if th else [])
    if name in ("relu", "selu", "tanh", "sigmoid"):
        for s in act_shapes:
            out.append({"shape": s})
    elif name == "leaky_relu":
        for s in act_shapes:
            for sl in (0.01, 0.2, -0.1, 1.5, 1.0, 0.0):          # slopes above 1 and the degenerate 1 / 0 are legal (PyTorch: x if x > 0 else slope * x)
                out.append({"shape": s, "slope": sl})
    elif name in ("softmax", "log_softmax"):
        for s in [[4], [3, 4], [2, 3, 2], [2, 2, 3, 2]] + ([[1], [1, 3], [3, 1]] if th else []):
            for d in range(-len(s), len(s)):
                out.append({"shape": s, "dim": d})
    elif name in ("mse_loss", "bce_loss", "bce_with_logits"):
        for s in [[], [4], [3, 2], [2, 2, 2]]:
            for red in ("mean", "sum", "none"):
                for tc in (("prob", "hard01") if name != "mse_loss" else ("-",)):
                    a = {"shape": s, "reduction": red}
                    if tc != "-":
                        a["tclass"] = tc
                    out.append(a)
    elif name in ("nll_loss", "cross_entropy"):
        for N, C in [(1, 2), (3, 4), (5, 6), (2, 1), (4, 3)]:
            for red in ("mean", "sum", "none"):
                out.append({"N": N, "C": C, "reduction": red})
    elif name == "linear":
        for xs in [[3, 4], [1, 2], [2, 3, 4], [2, 2, 2, 3], [5, 1], [4]]:
            for o in (1, 3):
                for b in (True, False):
                    out.append({"xshape": xs, "out": o, "bias": b})
        out.append({"xshape": [4, 3], "out": 1, "bias": True, "neuron": True})
        out.append({"xshape": [4, 3], "out": 1, "bias": True, "neuron": True, "zero_bias": True})
        out.append({"xshape": [3, 2], "out": 1, "bias": True, "zero_bias": True})
        out.append({"xshape": [3, 2], "out": 2, "bias": True, "zero_bias": True})
        out.append({"xshape": [2, 5], "out": 1, "bias": False, "neuron": True})
        out.append({"xshape": [130, 3], "out": 2, "bias": True})
        out.append({"xshape": [257, 2], "out": 130, "bias": True})
    elif name in ("conv1d", "max_pool1d", "avg_pool1d"):
        pool = "pool" in name
        geos = geo1d(7 if not th else 9, pool=pool)
        if not th:
            geos = [geos[int(i)] for i in rng.choice(len(geos), 150, replace=False)]
        for (L, k, s, p, d) in geos:
            N, C = int(rng.integers(1, 3)), int(rng.integers(1, 3))
            a = {"xshape": [N, C, L], "kernel": k, "stride": s, "padding": p, "dilation": d}
            if not pool:
                a.update(cout=int(rng.integers(1, 3)), bias=bool(rng.integers(2)))
            out.append(a)
        # many samples / channels (block-wise processing: the last, partial block), tiny spatial extent
        for N_, C_ in ((130, 1), (257, 2), (2, 65)):
            a = {"xshape": [N_, C_, 4], "kernel": 2, "stride": 1, "padding": 1, "dilation": 1}
            if not pool:
                a.update(cout=2, bias=True)
            out.append(a)
        if pool:
            out.append({"xshape": [2, 2, 6], "kernel": 2, "stride": None, "padding": 0, "dilation": 1})
            out.append({"xshape": [1, 2, 7], "kernel": 3, "stride": None, "padding": 1, "dilation": 1})
        else:
            for k, d, L in [(3, 1, 6), (1, 1, 4), (5, 1, 7), (2, 1, 6), (4, 1, 8), (3, 2, 8), (2, 2, 5)]:
                out.append({"xshape": [1, 2, L], "kernel": k, "stride": 1, "padding": "same", "dilation": d, "cout": 2, "bias": True, "module_only": True})
            out.append({"xshape": [1, 2, 6], "kernel": 3, "stride": 1, "padding": "valid", "dilation": 1, "cout": 2, "bias": True, "module_only": True})
            out.append({"xshape": [2, 1, 5], "kernel": 2, "stride": 1, "padding": 0, "dilation": 1, "cout": 1, "bias": True, "zero_bias": True})
    elif name in ("conv2d", "max_pool2d", "avg_pool2d", "unfold", "fold"):
        pool = "pool" in name
        g1 = geo1d(6 if not th else 7, pool=pool)
        n = 200 if not th else 6000
        for i in range(n):
            (H, kh, sh, ph, dh) = g1[int(rng.integers(len(g1)))]
            (W, kw, sw, pw, dw) = g1[int(rng.integers(len(g1)))]
            N, C = int(rng.integers(1, 3)), int(rng.integers(1, 3))
            form = i % 3
            if form == 0:      # int forms: same geometry on both axes
                W, kw, sw, pw, dw = H, kh, sh, ph, dh
                a = {"kernel": kh, "stride": sh, "padding": ph, "dilation": dh}
            elif form == 1:
                a = {"kernel": [kh, kw], "stride": [sh, sw], "padding": [ph, pw], "dilation": [dh, dw]}
            else:              # mixed: int kernel with tuple stride etc.
                kw = kh
                if W + 2 * pw - dw * (kw - 1) - 1 < 0:
                    continue
                a = {"kernel": kh, "stride": [sh, sw], "padding": [ph, pw], "dilation": [dh, dw]}
            if name == "fold":
                a.update(N=N, C=C, output_size=[H, W])
            else:
                a["xshape"] = [N, C, H, W]
            if name == "conv2d":
                a.update(cout=int(rng.integers(1, 3)), bias=bool(rng.integers(2)))
            if name == "unfold" and i % 4 == 0:
                a["pad_value"] = -1.5
            out.append(a)
        if name != "fold":
            for N_, C_ in ((130, 1), (200, 2), (2, 65)):
                a = {"xshape": [N_, C_, 3, 4], "kernel": 2, "stride": 1, "padding": [1, 0], "dilation": 1}
                if name == "conv2d":
                    a.update(cout=2, bias=True)
                out.append(a)
        if pool:
            out.append({"xshape": [1, 2, 6, 4], "kernel": 2, "stride": None, "padding": 0, "dilation": 1})
            out.append({"xshape": [2, 1, 5, 6], "kernel": [2, 3], "stride": None, "padding": [1, 1], "dilation": 1})
        if name == "conv2d":
            for k, d, HW in [(3, 1, (6, 6)), (1, 1, (4, 5)), (5, 1, (7, 6)), (2, 1, (6, 6)), (4, 1, (8, 8)), (3, 2, (8, 8)), ([3, 1], 1, (6, 6)),
                             ([1, 3], 1, (5, 6)), ([3, 5], 1, (8, 8))]:
                out.append({"xshape": [1, 2, HW[0], HW[1]], "kernel": k, "stride": 1, "padding": "same", "dilation": d, "cout": 2, "bias": True,
                            "module_only": True})
            out.append({"xshape": [1, 2, 6, 5], "kernel": 3, "stride": 1, "padding": "valid", "dilation": 1, "cout": 2, "bias": False, "module_only": True})
    elif name == "batch_norm":
        for xs in [[4, 3], [3, 2, 5], [2, 3, 2, 2], [5, 1]] + ([[8, 2], [2, 2, 3], [2, 1, 3, 2]] if th else []):
            for training in (True, False):
                for affine in (True, False):
                    for track in (True, False):
                        for mom in ((0.1, 0.5) if th else (0.1,)):
                            out.append({"xshape": xs, "training": training, "affine": affine, "track": track, "momentum": mom, "eps": 1e-5})
                        if affine:
                            # a non-default eps (forward and backward use the caller's value); functional form with only one of weight / bias
                            out.append({"xshape": xs, "training": training, "affine": affine, "track": track, "momentum": 0.1, "eps": 0.3 if training else 1e-2})
                            out.append({"xshape": xs, "training": training, "affine": "weight-only" if training else "bias-only", "track": track, "momentum": 0.1,
                                        "eps": 1e-5, "functional_only": True})
                        if track and not training and xs == [4, 3]:
                            # one value per channel is enough in inference mode (running statistics are used)
                            for x1 in ([1, 3], [1, 2, 1], [1, 2, 1, 1]):
                                out.append({"xshape": x1, "training": False, "affine": affine, "track": True, "momentum": 0.1, "eps": 1e-5})
                        if track:
                            out.append({"xshape": xs, "training": training, "affine": affine, "track": track, "momentum": 0.1, "eps": 1e-5,
                                        "second_forward": True})
                        if track and not training and xs[0] > 1:
                            out.append({"xshape": xs, "training": False, "affine": affine, "track": True, "momentum": None, "eps": 1e-5,
                                        "history": True, "module_only": True})
                            # momentum 0.0 is a number, not "no momentum": the running statistics stay where they are
                            out.append({"xshape": xs, "training": False, "affine": affine, "track": True, "momentum": 0.0 if affine else 0.5, "eps": 1e-3,
                                        "history": True, "module_only": True})
    elif name == "flatten_layer":
        for shp in [[2, 3], [2, 3, 4], [2, 1, 3, 2], [3, 2, 2, 2, 2]]:
            out.append({"shape": shp, "defaults": True, "start": 1, "end": -1})
            r = len(shp)
            for s_ in range(-r, r):
                for e_ in range(-r, r):
                    if s_ % r <= e_ % r:
                        out.append({"shape": shp, "start": s_, "end": e_, "kw": (s_ + e_) % 2 == 0})
    elif name == "dropout":
        for s in [[4, 5], [2, 3, 4], [20]]:
            for p in (0, 0.3, 0.9, 1, 0.5):
                for tr in (True, False):
                    out.append({"shape": s, "p": p, "training": tr})
                out.append({"shape": s, "p": p, "training": True, "second_forward": True})
    else:
        raise KeyError(name)
    return out


def empty_geometries(name):
    """configurations whose output would be empty or undefined: every implementation must raise"""
    out = []
    if name == "conv1d":
        out += [{"xshape": [1, 1, 2], "kernel": 3, "stride": 1, "padding": 0, "dilation": 1, "cout": 1, "bias": False},
                {"xshape": [1, 1, 4], "kernel": 3, "stride": 1, "padding": 0, "dilation": 2, "cout": 1, "bias": True}]
    if name in ("max_pool1d", "avg_pool1d"):
        out += [{"xshape": [1, 1, 2], "kernel": 3, "stride": 1, "padding": 0, "dilation": 1},
                {"xshape": [1, 2, 3], "kernel": 2, "stride": 1, "padding": 0, "dilation": 3}]
    if name in ("conv2d",):
        out += [{"xshape": [1, 1, 2, 5], "kernel": 3, "stride": 1, "padding": 0, "dilation": 1, "cout": 1, "bias": False},
                {"xshape": [1, 1, 5, 2], "kernel": [1, 3], "stride": 1, "padding": 0, "dilation": 1, "cout": 1, "bias": False},
                {"xshape": [1, 1, 2, 2], "kernel": 3, "stride": 1, "padding": 0, "dilation": 1, "cout": 1, "bias": False}]
    # padding='same' is only defined for unit strides (the layers document the refusal; PyTorch refuses too)
    if name == "conv1d":
        out += [{"xshape": [1, 2, 8], "kernel": 3, "stride": 2, "padding": "same", "dilation": 1, "cout": 2, "bias": True, "_form": "module"}]
    if name == "conv2d":
        out += [{"xshape": [1, 2, 8, 8], "kernel": 3, "stride": 2, "padding": "same", "dilation": 1, "cout": 2, "bias": True, "_form": "module"},
                {"xshape": [1, 1, 8, 8], "kernel": 3, "stride": [1, 2], "padding": "same", "dilation": 1, "cout": 1, "bias": False, "_form": "module"}]
    if name in ("max_pool2d", "avg_pool2d", "unfold"):
        out += [{"xshape": [1, 1, 2, 5], "kernel": 3, "stride": 1, "padding": 0, "dilation": 1},
                {"xshape": [1, 1, 2, 2], "kernel": 3, "stride": 1, "padding": 0, "dilation": 1},
                {"xshape": [1, 1, 4, 4], "kernel": [2, 2], "stride": 1, "padding": 0, "dilation": [4, 1]}]
    return out
