"""Random DAG programs over the op catalogue, with two interpreters (library / NumPy float64 reference values).

program = {"leaves": [{"shape","req"}], "instrs": [{"op","in":[value ids],"args":{},"nout":k}], "final": value id}
value ids: leaves first (0..nl-1), then instruction outputs in order (multi-output instructions take nout consecutive ids).
Generation runs the NumPy interpreter as it goes, so every program is shape-valid and numerically tame by construction.
"""
import hashlib, json
import numpy as np
from .ref import nnref as R


def _softmax(x, d):
    return R.softmax(x, d)


# name -> (arity, library fn(L, tensors, args), numpy fn(arrays, args), smooth)
POPS = {
    "add": (2, lambda L, t, a: t[0] + t[1], lambda x, a: x[0] + x[1]),
    "sub": (2, lambda L, t, a: t[0] - t[1], lambda x, a: x[0] - x[1]),
    "mul": (2, lambda L, t, a: t[0] * t[1], lambda x, a: x[0] * x[1]),
    "div_safe": (2, lambda L, t, a: t[0] / (t[1] * t[1] + 1.0), lambda x, a: x[0] / (x[1] * x[1] + 1.0)),
    "matmul": (2, lambda L, t, a: t[0] @ t[1], lambda x, a: x[0] @ x[1]),
    "matmul_T": (1, lambda L, t, a: t[0] @ t[0].transpose(-1, -2), lambda x, a: x[0] @ np.swapaxes(x[0], -1, -2)),
    "addmm": (3, lambda L, t, a: L.sg.addmm(t[0], t[1], t[2]), lambda x, a: x[0] + x[1] @ x[2]),
    "neg": (1, lambda L, t, a: -t[0], lambda x, a: -x[0]),
    "scale": (1, lambda L, t, a: t[0] * a["c"], lambda x, a: x[0] * a["c"]),
    "shift": (1, lambda L, t, a: t[0] + a["c"], lambda x, a: x[0] + a["c"]),
    "rsub": (1, lambda L, t, a: a["c"] - t[0], lambda x, a: a["c"] - x[0]),
    "square": (1, lambda L, t, a: t[0] ** 2, lambda x, a: x[0] ** 2),
    "cube": (1, lambda L, t, a: t[0] ** 3, lambda x, a: x[0] ** 3),
    "tanh": (1, lambda L, t, a: L.sg.tanh(t[0]), lambda x, a: np.tanh(x[0])),
    "sigmoid": (1, lambda L, t, a: L.sg.sigmoid(t[0]), lambda x, a: R.sigmoid(x[0])),
    "exp_tanh": (1, lambda L, t, a: L.sg.tanh(t[0]).exp(), lambda x, a: np.exp(np.tanh(x[0]))),
    "selu": (1, lambda L, t, a: L.sg.selu(t[0]), lambda x, a: R.selu(x[0])),
    "sqrt_sq": (1, lambda L, t, a: (t[0] * t[0] + 1.0).sqrt(), lambda x, a: np.sqrt(x[0] * x[0] + 1.0)),
    "log_sq": (1, lambda L, t, a: (t[0] * t[0] + 1.0).log(), lambda x, a: np.log(x[0] * x[0] + 1.0 + 1e-12)),
    "sum": (1, lambda L, t, a: t[0].sum(a["dim"], a["keepdims"]), lambda x, a: np.sum(x[0], axis=a["dim"], keepdims=a["keepdims"])),
    "mean": (1, lambda L, t, a: t[0].mean(a["dim"], a["keepdims"]), lambda x, a: np.mean(x[0], axis=a["dim"], keepdims=a["keepdims"])),
    "reshape": (1, lambda L, t, a: t[0].reshape(tuple(a["shape"])), lambda x, a: x[0].reshape(a["shape"])),
    "flatten": (1, lambda L, t, a: t[0].flatten(), lambda x, a: x[0].reshape(-1)),
    "transpose": (1, lambda L, t, a: t[0].transpose(a["d0"], a["d1"]), lambda x, a: np.swapaxes(x[0], a["d0"], a["d1"])),
    "movedim": (1, lambda L, t, a: t[0].movedim(a["s"], a["d"]), lambda x, a: np.moveaxis(x[0], a["s"], a["d"])),
    "unsqueeze": (1, lambda L, t, a: t[0].unsqueeze(a["dim"]), lambda x, a: np.expand_dims(x[0], a["dim"])),
    "squeeze": (1, lambda L, t, a: t[0].squeeze(), lambda x, a: np.squeeze(x[0])),
    "index": (1, lambda L, t, a: t[0][tuple(slice(*s) if isinstance(s, list) else s for s in a["idx"])],
              lambda x, a: x[0][tuple(slice(*s) if isinstance(s, list) else s for s in a["idx"])]),
    "take_rep": (1, lambda L, t, a: t[0][a["idx"]], lambda x, a: x[0][a["idx"]]),
    "clone": (1, lambda L, t, a: t[0].clone(), lambda x, a: x[0].copy()),
    "concat": (2, lambda L, t, a: L.sg.concat([t[0], t[1]], a["dim"]), lambda x, a: np.concatenate([x[0], x[1]], axis=a["dim"])),
    "concat_self": (1, lambda L, t, a: L.sg.concat([t[0], t[0]], a["dim"]), lambda x, a: np.concatenate([x[0], x[0]], axis=a["dim"])),
    "stack": (2, lambda L, t, a: L.sg.stack([t[0], t[1]], a["dim"]), lambda x, a: np.stack([x[0], x[1]], axis=a["dim"])),
    "concat_list_reused": (2, lambda L, t, a: _concat_then_mutate(L, t, a), lambda x, a: np.concatenate([x[0], x[1]], axis=a["dim"])),
    "stack_list_reused": (2, lambda L, t, a: _stack_then_mutate(L, t, a), lambda x, a: np.stack([x[0], x[1]], axis=a["dim"])),
    "unbind": (1, lambda L, t, a: L.sg.unbind(t[0], a["dim"]), lambda x, a: tuple(np.moveaxis(x[0], a["dim"], 0))),
    "softmax": (1, lambda L, t, a: L.sg.softmax(t[0], a["dim"]), lambda x, a: R.softmax(x[0], a["dim"])),
    "log_softmax": (1, lambda L, t, a: L.sg.log_softmax(t[0], a["dim"]), lambda x, a: R.log_softmax(x[0], a["dim"])),
    "linear": (3, lambda L, t, a: L.sg.linear(t[0], t[1], t[2]), lambda x, a: x[0] @ x[1].T + x[2]),
    "mse": (2, lambda L, t, a: L.sg.mse_loss(t[0], t[1]), lambda x, a: (x[0] - x[1]) ** 2),
    "unfold_dim": (1, lambda L, t, a: t[0].unfold(a["dim"], a["size"], a["step"]),
                   lambda x, a: np.moveaxis(np.lib.stride_tricks.sliding_window_view(x[0], a["size"], axis=a["dim"]),
                                            -1, -1)[tuple(slice(None, None, a["step"]) if i == a["dim"] % x[0].ndim else slice(None) for i in range(x[0].ndim))]),
    # nn geometry / normalisation ops inside programs (constant kernels are derived from a seed so that the program stays JSON)
    "avgpool1d": (1, lambda L, t, a: L.sg.avg_pool1d(t[0], a["k"], a["s"], a["p"]), lambda x, a: R.pool_nd(x[0], a["k"], a["s"], a["p"], 1, 1, "avg")),
    "conv1d_const": (1, lambda L, t, a: L.sg.conv1d(t[0], L.Tensor(_const_w(a, t[0].shape[1])), None, a["s"], a["p"], a["d"]),
                     lambda x, a: R.conv_nd(x[0], _const_w(a, x[0].shape[1]), None, a["s"], a["p"], a["d"], 1)),
    "conv1d_w": (2, lambda L, t, a: L.sg.conv1d(t[0], t[1], None, 1, a["p"], 1), lambda x, a: R.conv_nd(x[0], x[1], None, 1, a["p"], 1, 1)),
    # (without running statistics the batch statistics are used whatever the training flag says: the function - and its derivative - is the same)
    "batch_norm_train": (1, lambda L, t, a: L.sg.batch_norm(t[0], None, None, None, None, a.get("training", True), 0.1, a.get("eps", 1e-5)),
                         lambda x, a: R.batch_norm(x[0], None, None, None, None, True, 0.1, a.get("eps", 1e-5))[0]),
    # inference-mode batch norm whose running statistics are then used (and updated) by a training-mode call on other data before any backward:
    # the recorded inference node still differentiates the function that was evaluated
    "batch_norm_eval_then_train": (1, lambda L, t, a: _bn_eval_then_train(L, t, a),
                                   lambda x, a: R.batch_norm(x[0], None, None, np.zeros(x[0].shape[1]), 0.5 + np.arange(x[0].shape[1], dtype=np.float64), False, 0.5, 1e-5)[0]),
    "conv1d_wb": (3, lambda L, t, a: L.sg.conv1d(t[0], t[1], t[2], 1, a["p"], 1), lambda x, a: R.conv_nd(x[0], x[1], x[2], 1, a["p"], 1, 1)),
    # a constant operand that the caller advances with an augmented assignment after the op was recorded (step counters, running offsets)
    "mul_const_then_iadd": (1, lambda L, t, a: _mul_const_then_iadd(L, t, a), lambda x, a: x[0] * np.asarray(a["c"], dtype=np.float64)),
    "unfold2d": (1, lambda L, t, a: L.sg.unfold(t[0], a["k"], 1, a["s"], tuple(a["p"]) if isinstance(a["p"], list) else a["p"]),
                 lambda x, a: R.unfold(x[0], a["k"], 1, a["s"], tuple(a["p"]) if isinstance(a["p"], list) else a["p"])),
    "ce_const": (1, lambda L, t, a: L.sg.cross_entropy(t[0], L.Tensor(np.asarray(a["target"], dtype=np.int64))),
                 lambda x, a: R.cross_entropy(x[0], np.asarray(a["target"]))),
    "bce_logits": (2, lambda L, t, a: L.sg.binary_cross_entropy_with_logits(t[0], L.sg.sigmoid(t[1])),
                   lambda x, a: R.bce_logits(x[0], R.sigmoid(x[1]))),
    # piecewise-linear ops: only generated with a margin from the kink (values checked at generation time)
    "relu": (1, lambda L, t, a: L.sg.relu(t[0]), lambda x, a: np.maximum(x[0], 0)),
    "max": (1, lambda L, t, a: t[0].max(a["dim"], a["keepdims"]), lambda x, a: np.max(x[0], axis=a["dim"], keepdims=a["keepdims"])),
}
KINKED = {"relu", "max"}


LATE_MEMBERS = []          # tensors appended to a caller's list *after* the op was recorded: no backward call may give them a gradient


def _late_member(L, lst, like):
    extra = L.Tensor(np.ones(like.shape, dtype=like.data.dtype), requires_grad=True)
    lst.append(extra)
    LATE_MEMBERS.append(extra)
    del LATE_MEMBERS[:-64]


def _concat_then_mutate(L, t, a):
    lst = [t[0], t[1]]
    out = L.sg.concat(lst, a["dim"])
    lst.reverse(); lst.pop()           # the caller goes on using its list (sliding windows, buffers)
    _late_member(L, lst, t[0])
    return out


def _bn_eval_then_train(L, t, a):
    x = t[0]
    C = x.shape[1]
    dt = x.data.dtype
    rm, rv = L.Tensor(np.zeros(C, dtype=dt)), L.Tensor((0.5 + np.arange(C)).astype(dt))
    out = L.sg.batch_norm(x, None, None, rm, rv, False, 0.5, 1e-5)
    other = L.Tensor((np.arange(x.data.size, dtype=np.float64).reshape(x.shape) % 7 * 1.5 - 2.0).astype(dt))
    if other.data.size // C >= 2:
        L.sg.batch_norm(other, None, None, rm, rv, True, 0.5, 1e-5)      # same statistics tensors, training mode: they move on
    return out


def _mul_const_then_iadd(L, t, a):
    c = L.Tensor(np.asarray(a["c"], dtype=t[0].data.dtype))
    out = t[0] * c
    c += 1.0                      # rebinding or not, the recorded product keeps differentiating with the value it was computed with
    c *= 3.0
    return out


def _stack_then_mutate(L, t, a):
    lst = [t[0], t[1]]
    out = L.sg.stack(lst, a["dim"])
    lst.clear()                        # the micro-batch idiom: total = stack(losses).sum(); losses.clear(); ...; total.backward()
    _late_member(L, lst, t[0])         # ... and the list is filled again for the next round
    return out


def _const_w(a, cin):
    r = np.random.default_rng(int(a["wseed"]))
    return r.standard_normal((int(a["co"]), int(cin), int(a["k"])))


def value_reqs(leaves, instrs):
    """requires_grad of every value id (a result requires grad iff some operand does)"""
    reqs = [bool(l["req"]) for l in leaves]
    for ins in instrs:
        r = any(reqs[i] for i in ins["in"])
        reqs.extend([r] * ins["nout"])
    return reqs


def run_numpy(prog, leaf_vals):
    vals = list(leaf_vals)
    for ins in prog["instrs"]:
        out = POPS[ins["op"]][2]([vals[i] for i in ins["in"]], ins["args"])
        if isinstance(out, (tuple, list)):
            vals.extend(list(out))
        else:
            vals.append(out)
    return vals


def run_library(L, prog, leaf_tensors, order=None):
    """order: permutation of instruction indices that respects dependencies (construction order)"""
    n_l = len(prog["leaves"])
    base = []          # first value id of each instruction
    vid = n_l
    for ins in prog["instrs"]:
        base.append(vid)
        vid += ins["nout"]
    vals = {i: t for i, t in enumerate(leaf_tensors)}
    for k in (order if order is not None else range(len(prog["instrs"]))):
        ins = prog["instrs"][k]
        out = POPS[ins["op"]][1](L, [vals[i] for i in ins["in"]], ins["args"])
        if isinstance(out, (tuple, list)):
            for j, o in enumerate(out):
                vals[base[k] + j] = o
        else:
            vals[base[k]] = out
    return vals


def random_order(prog, rng):
    n_l = len(prog["leaves"])
    owner = {}
    vid = n_l
    for k, ins in enumerate(prog["instrs"]):
        for j in range(ins["nout"]):
            owner[vid + j] = k
        vid += ins["nout"]
    deps = [set(owner[i] for i in ins["in"] if i >= n_l) for ins in prog["instrs"]]
    done, order = set(), []
    remaining = set(range(len(prog["instrs"])))
    while remaining:
        ready = sorted(k for k in remaining if deps[k] <= done)
        k = ready[int(rng.integers(len(ready)))]
        order.append(k); done.add(k); remaining.discard(k)
    return order


def structural_hash(prog):
    s = json.dumps({"l": [(l["shape"], l["req"]) for l in prog["leaves"]],
                    "i": [(i["op"], i["in"], sorted((k, str(v)) for k, v in i["args"].items() if k != "c")) for i in prog["instrs"]]}, sort_keys=True)
    return hashlib.sha256(s.encode()).hexdigest()[:16]


def stats(prog):
    n_l = len(prog["leaves"])
    uses = {}
    twice = 0
    for ins in prog["instrs"]:
        for i in ins["in"]:
            uses[i] = uses.get(i, 0) + 1
        if len(set(ins["in"])) < len(ins["in"]) or ins["op"] in ("matmul_T", "concat_self"):
            twice += 1
    fanout = max(uses.values()) if uses else 0
    return {"n_instr": len(prog["instrs"]), "n_leaves": n_l, "max_fanout": fanout, "same_tensor_twice": twice,
            "multi_output": sum(1 for i in prog["instrs"] if i["nout"] > 1),
            "leaves_no_grad": sum(1 for l in prog["leaves"] if not l["req"])}


def generate(rng, n_instr, n_leaves, allow_kinks=False, big=False, leaves=None, init=None, join=True):
    """init = (prog, numpy values of every value id) continues an existing program (used for histories over shared leaves)"""
    shapes_pool = [[3], [2, 3], [3, 3], [2, 2, 3], [1, 3], [3, 1], [], [4], [2, 2, 5], [1, 2, 3, 3], [2, 2, 2]] if not big else [[6, 5], [5, 5], [4, 6, 5], [30], [5]]
    if init is not None:
        prog0, vals0 = init
        leaves = prog0["leaves"]
        instrs = list(prog0["instrs"])
        vals = list(vals0)
        leaf_vals = vals[:len(leaves)]
        used = set(i for ins in instrs for i in ins["in"])
        reserved = set()
        n_instr = len(instrs) + n_instr
    else:
        if leaves is None:
            leaves = []
            for i in range(n_leaves):
                shp = shapes_pool[int(rng.integers(len(shapes_pool)))]
                leaves.append({"shape": shp, "req": bool(rng.random() < 0.75)})
            if not any(l["req"] for l in leaves):
                leaves[0]["req"] = True
        leaf_vals = [rng.standard_normal(tuple(l["shape"])) for l in leaves]
        vals = list(leaf_vals)
        instrs = []
        used = set()
        reserved = set()
        image_tpl = None
        if n_leaves is not None and not big and rng.random() < 0.15:
            # an image leaf that goes through a 2-D window op with padding on one axis only / different on both (what 'same' gives for a (3,1) kernel)
            shp_ = [[1, 2, 4, 5], [2, 1, 3, 4], [1, 1, 5, 3]][int(rng.integers(3))]
            leaves.append({"shape": shp_, "req": True})
            v_ = rng.standard_normal(tuple(shp_))
            leaf_vals.append(v_); vals.append(v_)
            image_tpl = (len(leaves) - 1, {"k": 2, "s": int(rng.integers(1, 3)), "p": [[1, 0], [0, 1], [2, 0], [0, 2], [1, 2], [2, 1]][int(rng.integers(6))]})
        if n_leaves is not None and not big and rng.random() < 0.25:
            # a layer whose parameters are leaves of the program: x, W, b (the bias starts at exactly zero half of the time, as after zeros_)
            conv = rng.random() < 0.4
            shp = ([[1, 2, 5], [2, 2, 2], [2]] if conv else [[2, 3] if rng.random() < 0.6 else [2, 2, 3], [4, 3], [4]])
            base = len(leaves)
            for j, s_ in enumerate(shp):
                leaves.append({"shape": s_, "req": True if j == 2 else bool(rng.random() < 0.8)})
                v_ = rng.standard_normal(tuple(s_))
                if j == 2 and rng.random() < 0.5:
                    v_ = np.zeros(tuple(s_))
                leaf_vals.append(v_); vals.append(v_)
            if conv:
                instrs.append({"op": "conv1d_wb", "in": [base, base + 1, base + 2], "args": {"p": 1}, "nout": 1})
                vals.append(R.conv_nd(vals[base], vals[base + 1], vals[base + 2], 1, 1, 1, 1))
            else:
                instrs.append({"op": "linear", "in": [base, base + 1, base + 2], "args": {}, "nout": 1})
                vals.append(vals[base] @ vals[base + 1].T + vals[base + 2])
            used.update([base, base + 1, base + 2])
            if not np.any(vals[base + 2]):
                reserved.add(base + 2)        # exact zeros feed only the layer (|x|, log(x^2), max ... have kinks / poles there)
    if init is None and not big and n_leaves is not None and image_tpl is not None:
        base, a_ = image_tpl
        instrs.append({"op": "unfold2d", "in": [base], "args": a_, "nout": 1})
        vals.append(R.unfold(vals[base], a_["k"], 1, a_["s"], tuple(a_["p"])))
        used.add(base)
    names = [k for k in POPS if allow_kinks or k not in KINKED]
    attempts = 0
    while len(instrs) < n_instr and attempts < n_instr * 30:
        attempts += 1
        op = names[int(rng.integers(len(names)))]
        ar = POPS[op][0]
        # bias operand choice towards recent values (depth) but keep fan-out > 1 frequent
        def pick():
            if rng.random() < 0.6:
                return int(len(vals) - 1 - min(len(vals) - 1, int(rng.integers(0, 4))))
            return int(rng.integers(len(vals)))
        ins_in = [pick() for _ in range(ar)]
        if any(i in reserved for i in ins_in):
            continue
        if ar == 2 and rng.random() < 0.2:
            ins_in[1] = ins_in[0]          # same tensor twice in one op
        elif ar >= 2 and rng.random() < 0.3:
            # mixed operands: put a value that does NOT require grad first and one that does after it (same shape if possible)
            reqs = value_reqs(leaves, instrs)
            nr = [i for i in range(len(vals)) if not reqs[i]]
            rq = [i for i in range(len(vals)) if reqs[i]]
            if nr and rq:
                b_ = rq[int(rng.integers(len(rq)))]
                same = [i for i in nr if np.shape(vals[i]) == np.shape(vals[b_])]
                a_ = same[int(rng.integers(len(same)))] if same else nr[int(rng.integers(len(nr)))]
                ins_in[0], ins_in[1] = a_, b_
        x = [vals[i] for i in ins_in]
        args = {}
        try:
            r = x[0].ndim
            if op in ("scale", "shift", "rsub"):
                args["c"] = float(np.round(rng.uniform(-2, 2), 3)) or 0.5
            elif op in ("sum", "mean", "max"):
                if r == 0:
                    continue
                choice = int(rng.integers(3))
                if choice == 0:
                    args["dim"] = None
                elif choice == 1 or r == 1:
                    args["dim"] = int(rng.integers(-r, r))
                else:
                    ds = rng.choice(r, 2, replace=False)
                    args["dim"] = [int(ds[0]), int(ds[1]) - r]
                if op == "max" and isinstance(args["dim"], list):
                    args["dim"] = int(args["dim"][0])
                args["keepdims"] = bool(rng.integers(2))
                if isinstance(args["dim"], list):
                    args["dim"] = tuple(args["dim"])
            elif op == "reshape":
                if x[0].size < 2:
                    continue
                n = x[0].size
                fs = [f for f in range(1, n + 1) if n % f == 0]
                f = fs[int(rng.integers(len(fs)))]
                args["shape"] = [f, n // f] if rng.random() < 0.7 else [-1]
            elif op == "transpose":
                if r < 2:
                    continue
                args["d0"], args["d1"] = int(rng.integers(-r, r)), int(rng.integers(-r, r))
            elif op == "movedim":
                if r < 2:
                    continue
                args["s"], args["d"] = int(rng.integers(-r, r)), int(rng.integers(-r, r))
            elif op == "unsqueeze":
                args["dim"] = int(rng.integers(-r - 1, r + 1))
            elif op == "index":
                if r == 0:
                    continue
                idx = []
                for d in range(int(rng.integers(1, r + 1))):
                    L_ = x[0].shape[d]
                    if rng.random() < 0.4:
                        idx.append(int(rng.integers(-L_, L_)))
                    else:
                        idx.append([None, None, [1, 2, -1][int(rng.integers(3))]])
                args["idx"] = idx
            elif op == "take_rep":
                if r == 0:
                    continue
                L_ = x[0].shape[0]
                args["idx"] = [int(v) for v in rng.integers(-L_, L_, int(rng.integers(2, 5)))]
            elif op in ("concat", "concat_self", "softmax", "log_softmax", "unbind", "concat_list_reused"):
                if r == 0:
                    continue
                args["dim"] = int(rng.integers(-r, r))
            elif op in ("stack", "stack_list_reused"):
                args["dim"] = int(rng.integers(-r - 1, r + 1))
            elif op == "unfold_dim":
                if r == 0:
                    continue
                d = int(rng.integers(-r, r))
                L_ = x[0].shape[d]
                args = {"dim": d, "size": int(rng.integers(1, L_ + 1)), "step": int(rng.integers(1, 3))}
            elif op in ("matmul", "addmm", "matmul_T"):
                if any(v.ndim < 2 for v in x[-2:]):
                    continue
            elif op == "linear":
                if x[1].ndim != 2 or x[0].ndim < 1 or x[2].ndim != 1:
                    continue
            elif op in ("mse", "bce_logits"):
                if x[0].shape != x[1].shape:
                    continue
            elif op == "ce_const":
                if r != 2 or x[0].shape[1] < 2:
                    continue
                args = {"target": [int(v) for v in rng.integers(0, x[0].shape[1], x[0].shape[0])]}
            elif op == "avgpool1d":
                if r != 3 or x[0].shape[2] < 2:
                    continue
                args = {"k": 2, "s": int(rng.integers(1, 3)), "p": int(rng.integers(0, 2))}
                if rng.random() < 0.4:
                    args["p"] = [[1, 0], [0, 1], [2, 0], [0, 2]][int(rng.integers(4))]          # padding on one axis only
            elif op == "conv1d_const":
                if r != 3:
                    continue
                k_ = int(rng.integers(1, min(3, x[0].shape[2]) + 1))
                args = {"co": int(rng.integers(1, 3)), "k": k_, "s": int(rng.integers(1, 3)), "p": int(rng.integers(0, 3)), "d": int(rng.integers(1, 3)), "wseed": int(rng.integers(1 << 30))}
            elif op == "mul_const_then_iadd":
                args = {"c": [float(v) for v in np.round(rng.uniform(0.5, 2.0, x[0].shape[-1] if r else 1), 3)]} if r else {"c": float(np.round(rng.uniform(0.5, 2.0), 3))}
            elif op == "conv1d_wb":
                if r != 3 or x[1].ndim != 3 or x[2].ndim != 1 or x[1].shape[1] != x[0].shape[1] or x[2].shape[0] != x[1].shape[0] or x[1].shape[2] > x[0].shape[2] + 2:
                    continue
                args = {"p": 1}
            elif op == "conv1d_w":
                if r != 3 or x[1].ndim != 3 or x[1].shape[1] != x[0].shape[1] or x[1].shape[2] > x[0].shape[2] + 2:
                    continue
                args = {"p": 1}
            elif op == "batch_norm_eval_then_train":
                if r < 2 or x[0].size // x[0].shape[1] < 2:
                    continue
            elif op == "batch_norm_train":
                if r < 2 or x[0].size // x[0].shape[1] < 2 or np.min(np.var(np.moveaxis(x[0], 1, 0).reshape(x[0].shape[1], -1), axis=1)) < 1e-2:
                    continue
                args = {"eps": float(rng.choice([1e-5, 1e-2, 0.5])), "training": bool(rng.integers(2))}       # forward and backward both use the caller's eps
            elif op == "unfold2d":
                if r != 4 or min(x[0].shape[2:]) < 2:
                    continue
                args = {"k": 2, "s": int(rng.integers(1, 3)), "p": int(rng.integers(0, 2))}
            if isinstance(args.get("dim"), tuple):
                args["dim"] = list(args["dim"])
            a_eval = dict(args)
            if isinstance(a_eval.get("dim"), list):
                a_eval["dim"] = tuple(a_eval["dim"])
            with np.errstate(all="raise"):
                out = POPS[op][2](x, a_eval)
        except Exception:
            continue
        outs = list(out) if isinstance(out, tuple) else [out]
        if not outs or any((not np.all(np.isfinite(o))) or o.size == 0 or o.size > (4000 if big else 200) or
                           (o.size and np.max(np.abs(o)) > 50) for o in outs):
            continue
        if op in KINKED:
            # margin from the kink so that finite differences stay valid
            if op == "relu" and np.min(np.abs(x[0])) < 0.05:
                continue
            if op == "max":
                xs_ = x[0].reshape(-1) if args["dim"] is None else np.moveaxis(x[0], args["dim"], -1)
                if xs_.shape[-1] < 2:
                    continue
                srt = np.sort(xs_, axis=-1)
                if np.min(srt[..., -1] - srt[..., -2]) < 0.05:
                    continue
        if isinstance(args.get("dim"), tuple):
            args["dim"] = list(args["dim"])
        instrs.append({"op": op, "in": ins_in, "args": args, "nout": len(outs)})
        used.update(ins_in)
        vals.extend(outs)
    # join every value that nothing consumes (except a few deliberately unused multi-output parts) into one result
    n_l = len(leaves)
    dangling = [i for i in range(n_l, len(vals)) if i not in used] if join else []
    if rng.random() < 0.5 and len(dangling) > 2:
        dangling.pop(int(rng.integers(len(dangling))))       # leave one branch unused on purpose
    cur = None
    for i in dangling:
        instrs.append({"op": "sum", "in": [i], "args": {"dim": None, "keepdims": False}, "nout": 1})
        vals.append(np.sum(vals[i]))
        sid = len(vals) - 1
        instrs.append({"op": "scale", "in": [sid], "args": {"c": float(np.round(rng.uniform(0.5, 1.5), 3))}, "nout": 1})
        vals.append(vals[sid] * instrs[-1]["args"]["c"])
        sid = len(vals) - 1
        if cur is None:
            cur = sid
        else:
            instrs.append({"op": "add", "in": [cur, sid], "args": {}, "nout": 1})
            vals.append(vals[cur] + vals[sid])
            cur = len(vals) - 1
    if cur is None:
        cur = len(vals) - 1
    prog = {"leaves": leaves, "instrs": instrs, "final": cur}
    if init is not None or not join:
        return prog, vals
    return prog, [np.asarray(v).tolist() for v in leaf_vals]


def fix_args(prog):
    """JSON round trip turns tuples into lists: restore tuple dims for reductions"""
    for ins in prog["instrs"]:
        if isinstance(ins["args"].get("dim"), list):
            ins["args"]["dim"] = tuple(ins["args"]["dim"])
    return prog
