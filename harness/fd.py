"""O1 — finite-difference VJP oracle.

phi(x) = <g, f(x)> is evaluated by the *library's own forward* in float64 with gradient tracking off; the expected
gradient is d phi / d x_i.  Two modes:

 affine     f is affine in the operand being perturbed (others held fixed): central differences at h=1 and h=2 are
            exact up to rounding; the two must agree (else the sample is inconclusive, e.g. forward left float64).
 richardson general smooth f: central differences at h, h/2, h/4 -> two Richardson estimates R1, R2 with O(h^4)
            truncation; they must agree to 1e-7 relative (else inconclusive: kink or singularity nearby).
"""
import numpy as np

AFF_TOL = 1e-9
RICH_TOL = 1e-6
RICH_AGREE = 1e-7
AFF_AGREE = 1e-9


def _central(phi, x, idx, h):
    old = x[idx]
    x[idx] = old + h
    fp = phi(x)
    x[idx] = old - h
    fm = phi(x)
    x[idx] = old
    return (fp - fm) / (2.0 * h)


def fd_grad(phi, x0, mode, coords=None, hrel=1e-4):
    """returns (grad, ok_mask, scale).  grad has x0's shape (nan where not requested); ok_mask False = inconclusive."""
    x = np.array(x0, dtype=np.float64, copy=True)
    grad = np.full(x.shape, np.nan)
    ok = np.zeros(x.shape, dtype=bool)
    phi0 = float(phi(x))
    it = coords if coords is not None else list(np.ndindex(x.shape))
    for idx in it:
        if mode == "affine":
            d1 = _central(phi, x, idx, 1.0)
            d2 = _central(phi, x, idx, 2.0)
            sc = max(1.0, abs(d1), abs(phi0))
            grad[idx] = d1
            ok[idx] = np.isfinite(d1) and np.isfinite(d2) and abs(d1 - d2) <= AFF_AGREE * sc
        else:
            h = hrel * max(1.0, abs(x[idx]))
            a = _central(phi, x, idx, h)
            b = _central(phi, x, idx, h / 2)
            c = _central(phi, x, idx, h / 4)
            r1 = (4 * b - a) / 3.0
            r2 = (4 * c - b) / 3.0
            sc = max(1.0, abs(r2), abs(phi0))
            grad[idx] = r2
            ok[idx] = np.isfinite(r1) and np.isfinite(r2) and abs(r1 - r2) <= RICH_AGREE * sc
    return grad, ok, max(1.0, abs(phi0))


def compare(got, want, ok, mode, scale):
    """-> (n_bad, n_checked, n_inconclusive, worst_rel, first_bad_index)"""
    tol = AFF_TOL if mode == "affine" else RICH_TOL
    got = np.asarray(got, dtype=np.float64)
    if got.shape != want.shape:
        return 1, 0, 0, float("inf"), "shape"
    chk = ok & ~np.isnan(want)
    nin = int((~ok & ~np.isnan(want)).sum()) if want.size else 0
    if not chk.any():
        return 0, 0, nin, 0.0, None
    gs = float(np.nanmax(np.abs(want[chk]))) if chk.any() else 0.0
    bound = tol * (max(scale, gs) + np.abs(want))
    diff = np.abs(got - want)
    with np.errstate(invalid="ignore"):
        bad = chk & ~(diff <= bound)
    worst = float(np.max(np.where(chk, np.nan_to_num(diff, nan=np.inf) / (max(scale, gs) + np.abs(want)), 0.0)))
    first = None
    if bad.any():
        first = [int(i) for i in np.argwhere(bad)[0]]
    return int(bad.sum()), int(chk.sum()), nin, worst, first


def directional(phi, x0, grad, rng, ndirs=4, hrel=1e-4, mode="richardson"):
    """<grad, v> against d/dt phi(x0 + t v) for random directions; returns list of (got, want, ok)"""
    out = []
    x0 = np.asarray(x0, dtype=np.float64)
    for _ in range(ndirs):
        v = rng.standard_normal(x0.shape)
        v /= max(1e-12, np.linalg.norm(v))

        def line(t):
            return float(phi(x0 + t * v))
        if mode == "affine":
            d1 = (line(1.0) - line(-1.0)) / 2.0
            d2 = (line(2.0) - line(-2.0)) / 4.0
            want, ok = d1, abs(d1 - d2) <= AFF_AGREE * max(1.0, abs(d1), abs(line(0.0)))
        else:
            h = hrel * max(1.0, float(np.max(np.abs(x0))) if x0.size else 1.0)
            a = (line(h) - line(-h)) / (2 * h)
            b = (line(h / 2) - line(-h / 2)) / h
            c = (line(h / 4) - line(-h / 4)) / (h / 2)
            r1, r2 = (4 * b - a) / 3, (4 * c - b) / 3
            want, ok = r2, abs(r1 - r2) <= RICH_AGREE * max(1.0, abs(r2), abs(line(0.0)))
        got = float(np.sum(np.asarray(grad, dtype=np.float64) * v))
        out.append((got, want, bool(ok)))
    return out
