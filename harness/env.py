"""Import of the code under test.

The library is always imported from SYNAPGRAD_ROOT (default /repo): the worker
puts that directory first on sys.path, imports synapgrad and asserts that the
module file really lives there, so the checks always observe the current
working tree (or, for mutation experiments, a scratch copy) and never a stale
install.
"""
import os, sys, types

ROOT = os.path.realpath(os.environ.get("SYNAPGRAD_ROOT", "/repo"))
GUARD = "SYNAPGRAD_VERIF"

_loaded = {}


def pin_threads():
    for k in ("OPENBLAS_NUM_THREADS", "OMP_NUM_THREADS", "MKL_NUM_THREADS", "NUMEXPR_NUM_THREADS"):
        os.environ.setdefault(k, "1")


def _stub_pkbar():
    """pkbar cannot be imported here (it needs pkg_resources, removed from
    setuptools); that is a fact about the sandbox, not about synapgrad.  A
    progress bar has no bearing on any property, so a silent stand-in is used
    *only if* the real import fails."""
    try:
        import pkbar  # noqa
        return False
    except Exception:
        m = types.ModuleType("pkbar")

        class Kbar:
            def __init__(self, *a, **k):
                pass

            def update(self, *a, **k):
                pass

            def add(self, *a, **k):
                pass

        m.Kbar = Kbar
        m.__verif_stub__ = True
        sys.modules["pkbar"] = m
        return True


def load(with_utils=False):
    """returns a namespace with the library modules"""
    pin_threads()
    if "sg" not in _loaded:
        if sys.path[0] != ROOT:
            sys.path.insert(0, ROOT)
        import numpy as np
        import synapgrad
        f = os.path.realpath(synapgrad.__file__)
        assert f.startswith(ROOT + os.sep), f"synapgrad imported from {f}, expected under {ROOT}"
        ns = types.SimpleNamespace()
        ns.np = np
        ns.sg = synapgrad
        ns.Tensor = synapgrad.Tensor
        ns.tmod = sys.modules["synapgrad.tensor"]
        ns.F = sys.modules["synapgrad.functional"]
        ns.nnF = sys.modules["synapgrad.nn.functional"]
        ns.nn = synapgrad.nn
        ns.cpu_ops = sys.modules["synapgrad.cpu_ops"]
        ns.conv_tools = sys.modules["synapgrad.conv_tools"]
        ns.optim = synapgrad.optim
        ns.optimizers = sys.modules["synapgrad.optim.optimizers"]
        ns.init = sys.modules["synapgrad.nn.init"]
        ns.modules = sys.modules["synapgrad.nn.modules"]
        ns.layers = sys.modules["synapgrad.nn.layers"]
        ns.losses = sys.modules["synapgrad.nn.losses"]
        ns.root = ROOT
        _loaded["sg"] = ns
    ns = _loaded["sg"]
    if with_utils and not hasattr(ns, "nnutils"):
        ns.pkbar_stubbed = _stub_pkbar()
        import matplotlib
        matplotlib.use("Agg")
        import synapgrad.nn.utils as U
        ns.nnutils = U
        ns.data = sys.modules["synapgrad.nn.utils.data"]
        ns.train = sys.modules["synapgrad.nn.utils.train"]
    return ns
