"""pytest plugin (validation step §9.0, not a registered check): runs the repository's own suite with every monitor
attached.  Usage:  cd /repo && SYNAPGRAD_VERIF=1 PYTHONPATH=/verif /venv/bin/python -m pytest -q -p harness.pytest_monitors tests
Wrappers must be transparent (the suite's results are unchanged) and a monitor that fires is read before it is trusted."""
import json

_mon = None


def pytest_configure(config):
    global _mon
    from harness import env, monitors
    ns = env.load()
    _mon = monitors.Monitors(ns)
    _mon.install_kernel_sanitizer()
    _mon.install_stride_sanitizer()
    _mon.install_backward_trace()
    _mon.install_grad_mode_monitor()


def pytest_terminal_summary(terminalreporter):
    v = _mon.drain()
    sigs = {}
    for x in v:
        sigs[x["sig"]] = sigs.get(x["sig"], 0) + 1
    terminalreporter.write_line("VERIF-MONITORS counters: " + json.dumps(_mon.counters, sort_keys=True))
    terminalreporter.write_line("VERIF-MONITORS violations: " + json.dumps(sigs, sort_keys=True))
