"""shared case construction / execution for the nn-op properties (C02, C06, C09, C10, C11, C14)"""
import copy
import numpy as np
from . import gen, nncatalog
from .nncatalog import NNOPS


def build_cases(tier, seed, salt, budget=None, with_empty=False):
    rng = gen.rng_for(seed, salt, tier)
    cases = []
    for name, op in NNOPS.items():
        g = nncatalog.grid(name, tier, rng)
        items = []
        for a in g:
            for form in op.forms:
                if a.get("module_only") and form != "module":
                    continue
                if a.get("functional_only") and form != "functional":
                    continue
                a2 = dict(a)
                a2.pop("module_only", None)
                a2.pop("functional_only", None)
                if name.endswith("_loss") or name in ("bce_with_logits", "cross_entropy"):
                    a2["form_is_module"] = form == "module"
                    if form == "functional" and a2["reduction"] != "none":
                        continue
                items.append((a2, form, False))
        if with_empty:
            for a in nncatalog.empty_geometries(name):
                a = dict(a)
                items.append((a, a.pop("_form", "functional"), True))
        if budget and len(items) > budget:
            strata = {}
            for it in items:
                strata.setdefault((it[1], op.argclass(it[0]), it[2]), []).append(it)
            keep = [v[int(rng.integers(len(v)))] for v in strata.values()]
            rest = [it for it in items if it not in keep]
            extra = max(0, budget - len(keep))
            if extra and rest:
                keep += [rest[int(i)] for i in rng.choice(len(rest), min(extra, len(rest)), replace=False)]
            items = keep
        for n, (a, form, empty) in enumerate(items):
            if name == "dropout":
                a = dict(a, mask_seed=int(rng.integers(2 ** 31)))
            cases.append({"op": name, "form": form, "a": a, "empty_geometry": empty, "n": n, "seed": int(rng.integers(2 ** 31))})
    return cases


def operands_of(case):
    op = NNOPS[case["op"]]
    specs = op.operands(case["a"])
    # hard labels handed over as integer / bool tensors (case["int_operands"] = {operand index: dtype name})
    for i, dtname in (case.get("int_operands") or {}).items():
        if int(i) < len(specs) and not specs[int(i)]["int"]:
            specs[int(i)] = dict(specs[int(i)], int=True, diff=False, idtype=dtname, hard=True)
    # integer-valued inputs handed over as integer tensors (pixel data, counts): case["int_inputs"] = {operand index: dtype name}
    for i, dtname in (case.get("int_inputs") or {}).items():
        if int(i) < len(specs) and not specs[int(i)]["int"] and specs[int(i)].get("vclass") not in ("prob", "positive", "runvar"):
            specs[int(i)] = dict(specs[int(i)], int=True, diff=False, idtype=dtname, rounded=True)
    return specs


def materialize(case, rng=None):
    rng = rng or gen.rng_for(case["seed"], "vals")
    specs = operands_of(case)
    xs = []
    for sp in specs:
        v = nncatalog.operand_values(rng, sp, case["a"])
        if sp.get("hard"):
            v = (np.asarray(v) > 0.5).astype(sp["idtype"])
        elif sp.get("rounded"):
            v = np.clip(np.rint(np.asarray(v, dtype=np.float64) * 3), 0 if sp["idtype"].startswith("u") else -100, 100).astype(sp["idtype"])
        xs.append(np.asarray(v))
    return specs, xs


def to_tensors(ns, specs, xs, dtype, req, storage="plain"):
    ts = []
    pool = {}
    for i, (sp, x, r) in enumerate(zip(specs, xs, req)):
        if sp["int"]:
            ts.append(ns.Tensor(np.asarray(x, dtype=sp.get("idtype", np.int64))))
        else:
            arr = np.array(x, dtype=dtype, copy=True)
            if storage != "plain":
                arr = gen.as_storage(arr, storage, None, pool)       # same values, stored as a non-contiguous / shared-base view
            ts.append(ns.Tensor(arr, requires_grad=bool(r)))
    return ts


def forward(ns, case, xs, dtype=np.float64, req=None):
    op = NNOPS[case["op"]]
    specs = operands_of(case)
    if req is None:
        req = [False] * len(xs)
    ts = to_tensors(ns, specs, xs, dtype, req, case.get("storage", "plain"))
    a = copy.deepcopy(case["a"])
    out = op.forms[case["form"]](ns, ts, a)
    if case.get("twice"):
        # same op, same shapes / dtypes / arguments, other values: caches or buffers shared between calls must not leak into `out`
        xs2 = [x if sp["int"] else (np.asarray(x, dtype=np.float64) * -0.7 + 0.9 if sp["vclass"] not in ("prob", "positive", "runvar") else np.asarray(x)[..., ::-1].copy() if np.ndim(x) else x)
               for sp, x in zip(specs, xs)]
        ts2 = to_tensors(ns, specs, xs2, dtype, [False] * len(xs), "plain")
        try:
            op.forms[case["form"]](ns, ts2, copy.deepcopy(case["a"]))
        except Exception:
            pass
    return ts, out


def reference(case, xs):
    op = NNOPS[case["op"]]
    # (hard 0/1 labels held in small integer / bool arrays are the numbers 0.0 / 1.0 to the reference: no unsigned wrap-around, no bool arithmetic)
    return op.ref([np.asarray(x, dtype=np.float64) if (not sp["int"] or sp.get("hard")) else np.asarray(x) for sp, x in zip(operands_of(case), xs)], case["a"])
