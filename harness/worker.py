"""Worker: runs one shard of cases in this process against the real library."""
import faulthandler, json, os, sys, traceback, time

faulthandler.enable()


def classify_exception(root):
    """library frame innermost -> the library raised; harness frame -> our bug"""
    et, ev, tb = sys.exc_info()
    frames = traceback.extract_tb(tb)
    inner = frames[-1].filename if frames else ""
    in_lib = any(os.path.realpath(fr.filename).startswith(root + os.sep) for fr in frames)
    return et.__name__, str(ev)[:300], in_lib, "".join(traceback.format_exception(et, ev, tb))[-2500:]


def main():
    shard_path, out_path = sys.argv[1], sys.argv[2]
    shard = json.load(open(shard_path))
    cov = None
    if os.environ.get("VERIF_COVERAGE"):
        # optional reach monitor (tools/reach.sh): which library lines / branches this shard's workload executed
        import coverage
        root = os.path.realpath(os.environ.get("SYNAPGRAD_ROOT", "/repo"))
        os.makedirs(os.environ["VERIF_COVERAGE"], exist_ok=True)
        cov = coverage.Coverage(data_file=os.path.join(os.environ["VERIF_COVERAGE"], f"{shard['pid']}.cov.{os.getpid()}"),
                                branch=True, include=[os.path.join(root, "synapgrad", "*")], config_file=False)
        cov.start()
    from harness import env, runner
    prop = runner.load_prop(shard["pid"])
    ns = env.load(with_utils=getattr(prop, "NEEDS_UTILS", False))
    ctx = prop.setup(ns, shard["tier"], shard["seed"]) if hasattr(prop, "setup") else None
    res = {"evaluations": 0, "keys": set(), "counters": {}, "cover": {}, "violations": [], "samples": [],
           "inconclusive": 0, "harness_errors": [], "complete": False, "notes": []}
    jp = out_path + ".journal"
    nsamples = 0
    for i, case in enumerate(shard["cases"]):
        with open(jp, "w") as jf:
            jf.write(str(i))
        try:
            r = prop.run_case(ns, ctx, case)
        except Exception:
            name, msg, in_lib, tb = classify_exception(ns.root)
            if in_lib:
                r = {"key": None, "viol": [{"sig": f"unexpected-exception:{name}", "what": f"library raised {name}: {msg}",
                                            "detail": {"traceback": tb}}]}
            else:
                res["harness_errors"].append({"case": case, "traceback": tb})
                continue
        res["evaluations"] += r.get("evals", 1)
        for k in ([r["key"]] if r.get("key") is not None else []) + list(r.get("keys", [])):
            res["keys"].add(k if isinstance(k, str) else json.dumps(k, sort_keys=True, default=str))
        for k, v in r.get("counters", {}).items():
            res["counters"][k] = res["counters"].get(k, 0) + v
        for k, v in r.get("cover", {}).items():
            res["cover"].setdefault(k, set()).update(v if isinstance(v, (list, set, tuple)) else [v])
        res["inconclusive"] += r.get("inconclusive", 0)
        for v in r.get("viol", []):
            v = dict(v)
            v.setdefault("case", case)
            res["violations"].append(v)
        if r.get("note"):
            res["notes"].append(r["note"])
        if nsamples < 3 and (r.get("key") is not None or r.get("keys")):
            s = r.get("sample", case)
            res["samples"].append(s)
            nsamples += 1
    if hasattr(prop, "teardown"):
        extra = prop.teardown(ns, ctx) or {}
        for k, v in extra.get("counters", {}).items():
            res["counters"][k] = res["counters"].get(k, 0) + v
        for v in extra.get("viol", []):
            res["violations"].append(v)
    if cov is not None:
        cov.stop()
        cov.save()
    res["complete"] = True
    res["keys"] = sorted(res["keys"])
    res["cover"] = {k: sorted(map(str, v)) for k, v in res["cover"].items()}
    with open(out_path, "w") as f:
        json.dump(res, f, default=str)


if __name__ == "__main__":
    main()
