"""setup_cmd: byte-compile the harness and smoke-test the import of /repo's synapgrad plus every monitor."""
import compileall, os, sys
HERE = os.path.dirname(os.path.dirname(os.path.abspath(__file__)))


def main():
    ok = compileall.compile_dir(os.path.join(HERE, "harness"), quiet=1, legacy=False) and \
         compileall.compile_dir(os.path.join(HERE, "props"), quiet=1, legacy=False)
    sys.path.insert(0, HERE)
    from harness import env
    ns = env.load(with_utils=True)
    x = ns.Tensor(ns.np.ones((2, 3)), requires_grad=True)
    (x * 2).sum().backward()
    assert x.grad is not None
    try:
        from harness import monitors
        n = monitors.selftest(ns)
        print("monitors ok:", n)
    except ImportError:
        pass
    print("selftest ok; synapgrad from", ns.sg.__file__)
    return 0 if ok else 1


if __name__ == "__main__":
    sys.exit(main())
