"""known_findings.json: committed, read-only at run time.

An entry {"status":"known","property":..,"signature":..,"what":..,"witness":..} suppresses exactly the violations
of that property whose mechanism signature equals it.  "fixed" entries suppress nothing."""
import json, os

PATH = os.path.join(os.path.dirname(os.path.dirname(os.path.abspath(__file__))), "known_findings.json")


def load():
    if not os.path.exists(PATH):
        return []
    return json.load(open(PATH))["entries"]


def match(entries, pid, sig):
    for e in entries:
        if e.get("status") == "known" and e["property"] == pid and e["signature"] == sig:
            return e
    return None
