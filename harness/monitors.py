"""Monitors attached from outside to the live library (no code in /repo).

Each monitor counts its evaluations; a check whose deciding monitor evaluated zero times is inconclusive.
Violations found by monitors are appended to `Monitors.viol` as {"sig","what","detail"} and drained by the property
module after each case (so they are attributed to the case that produced them).
"""
import functools, gc, os, weakref
import numpy as np

ENABLED = os.environ.get("SYNAPGRAD_VERIF") == "1"


def _arrays_in(obj, out, depth=0):
    if isinstance(obj, np.ndarray):
        out.append(obj)
    elif isinstance(obj, (list, tuple)) and depth < 2:
        for o in obj:
            _arrays_in(o, out, depth + 1)


def _snap(a):
    try:
        return (a.shape, a.dtype.str, np.array(a, copy=True).tobytes())
    except Exception:
        return None


def byte_bounds(a):
    """(low, high) addresses touched by array a (high exclusive)"""
    lo = hi = a.__array_interface__["data"][0]
    if a.size == 0:
        return lo, lo
    for n, s in zip(a.shape, a.strides):
        if s > 0:
            hi += (n - 1) * s
        else:
            lo += (n - 1) * s
    return lo, hi + a.itemsize


class Monitors:
    def __init__(self, ns):
        self.ns = ns
        self.counters = {}
        self.viol = []
        self.installed = set()
        self._orig = []
        self.trace_stack = []
        self.sweeps = []          # summaries of observed sweeps (for the property modules)
        self.keep_sweeps = False
        self.live = None
        self.mode_events = []

    # -------------------------------------------------------------- helpers
    def count(self, k, n=1):
        self.counters[k] = self.counters.get(k, 0) + n

    def report(self, sig, what, **detail):
        self.viol.append({"sig": sig, "what": what, "detail": detail})

    def drain(self):
        v, self.viol = self.viol, []
        return v

    def take_counters(self):
        c, self.counters = self.counters, {}
        return c

    def _patch(self, obj, name, new):
        self._orig.append((obj, name, getattr(obj, name)))
        setattr(obj, name, new)

    def uninstall(self):
        for obj, name, old in reversed(self._orig):
            setattr(obj, name, old)
        self._orig = []
        self.installed = set()

    # -------------------------------------------------------------- KernelSanitizer
    def install_kernel_sanitizer(self):
        if "kernel" in self.installed or not ENABLED:
            return
        self.installed.add("kernel")
        ns = self.ns
        import types
        for mod, modname in ((ns.cpu_ops, "cpu_ops"), (ns.conv_tools, "conv_tools")):
            for name, fn in list(vars(mod).items()):
                if isinstance(fn, types.FunctionType) and not name.startswith("_") and fn.__module__.startswith("synapgrad"):
                    self._patch(mod, name, self._wrap_kernel(fn, f"{modname}.{name}"))
        # cpu_ops binds these two by `from ... import`: the conv_tools originals are already in cpu_ops' namespace and
        # were wrapped above under the cpu_ops name (their __module__ is synapgrad.conv_tools).

    def _wrap_kernel(self, fn, qual):
        mon = self

        @functools.wraps(fn)
        def w(*args, **kwargs):
            arrs = []
            _arrays_in(args, arrs)
            _arrays_in(tuple(kwargs.values()), arrs)
            snaps = [_snap(a) for a in arrs]
            res = fn(*args, **kwargs)
            mon.count("kernel_calls")
            for a, s in zip(arrs, snaps):
                if s is not None and _snap(a) != s:
                    mon.report(f"kernel-mutates-argument:{qual}", f"kernel {qual} changed the bytes of one of its array arguments",
                               kernel=qual, shape=list(a.shape))
            return res
        w.__verif_wrapped__ = fn
        return w

    # -------------------------------------------------------------- StrideSanitizer
    def install_stride_sanitizer(self):
        if "stride" in self.installed or not ENABLED:
            return
        self.installed.add("stride")
        st = np.lib.stride_tricks
        orig = st.as_strided
        mon = self

        @functools.wraps(orig)
        def as_strided(x, shape=None, strides=None, **kw):
            mon.count("as_strided_calls")
            base = np.asarray(x)
            shp = tuple(int(s) for s in (shape if shape is not None else base.shape))
            strd = tuple(int(s) for s in (strides if strides is not None else base.strides))
            bad = None
            if any(s < 0 for s in shp):
                bad = "negative extent"
            elif len(shp) != len(strd):
                bad = "shape/strides rank mismatch"
            elif all(s > 0 for s in shp):
                lo = hi = base.__array_interface__["data"][0]
                for n, s in zip(shp, strd):
                    if s > 0:
                        hi += (n - 1) * s
                    else:
                        lo += (n - 1) * s
                hi += base.itemsize
                blo, bhi = byte_bounds(base)
                if lo < blo or hi > bhi:
                    bad = f"view spans bytes [{lo - blo},{hi - blo}) of a buffer of {bhi - blo} bytes"
            if bad:
                mon.report("stride-sanitizer:out-of-bounds-view", "as_strided view reaches outside the base array's buffer: " + bad,
                           shape=list(shp), strides=list(strd), base_shape=list(base.shape), base_strides=list(base.strides))
                raise MemoryError("verif stride sanitizer: out-of-bounds strided view refused: " + bad)
            return orig(x, shape=shape, strides=strides, **kw)
        self._patch(st, "as_strided", as_strided)

    # -------------------------------------------------------------- BackwardTrace + GradShapeDtype
    @staticmethod
    def walk(root):
        """iterative walk over _children; returns (nodes in discovery order, edges consumer->operand)"""
        seen = {id(root): root}
        order = [root]
        stack = [root]
        edges = []
        while stack:
            n = stack.pop()
            for c in getattr(n, "_children", ()) or ():
                edges.append((n, c))
                if id(c) not in seen:
                    seen[id(c)] = c
                    order.append(c)
                    stack.append(c)
        return order, edges

    def install_backward_trace(self, shape_dtype=True, release=True):
        if "trace" in self.installed or not ENABLED:
            return
        self.installed.add("trace")
        ns = self.ns
        mon = self
        T = ns.Tensor
        BF = ns.F.BackwardFunction
        orig_backward = T.backward
        self.orig_backward = orig_backward
        orig_call = BF.__call__

        def bf_call(self_bf):
            if mon.trace_stack:
                mon.trace_stack[-1]["calls"].append(id(self_bf))
            mon.count("grad_fn_invocations")
            return orig_call(self_bf)

        def backward(self_t, grad=None):
            nodes, edges = mon.walk(self_t)
            # differentiable-reachable set: through tensors that require grad only
            req = {id(self_t)} if self_t.requires_grad else set()
            stack = [self_t] if self_t.requires_grad else []
            while stack:
                n = stack.pop()
                for c in getattr(n, "_children", ()) or ():
                    if c.requires_grad and id(c) not in req:
                        req.add(id(c)); stack.append(c)
            fn_of = {}
            for n in nodes:
                gf = n._grad_fn
                if gf is not None:
                    fn_of[id(gf)] = n
            frame = {"calls": []}
            mon.trace_stack.append(frame)
            try:
                res = orig_backward(self_t, grad) if grad is not None else orig_backward(self_t)
            finally:
                mon.trace_stack.pop()
            mon.count("backward_sweeps")
            calls = frame["calls"]
            pos = {}
            dup = False
            for i, fid in enumerate(calls):
                if fid in pos:
                    dup = True
                pos.setdefault(fid, i)
            if dup:
                mon.report("backward-trace:grad_fn-invoked-more-than-once", "a backward function ran more than once in one sweep",
                           n_calls=len(calls), n_distinct=len(pos))
            must = {id(n._grad_fn) for n in nodes if id(n) in req and n._grad_fn is not None}
            missing = must - set(pos)
            if missing:
                ops = sorted({str(fn_of[m]._operation) for m in missing})
                mon.report("backward-trace:grad_fn-not-invoked", "a reachable recorded operation did not run in the sweep",
                           operations=ops, n_missing=len(missing))
            foreign = set(pos) - set(fn_of)
            if foreign:
                mon.report("backward-trace:foreign-grad_fn-invoked", "a backward function outside the graph of the root ran",
                           n=len(foreign))
            nbad = 0
            npairs = 0
            for a, b in edges:
                fa, fb = a._grad_fn, b._grad_fn
                if fa is not None and fb is not None and id(a) in req and id(b) in req and id(fa) in pos and id(fb) in pos:
                    npairs += 1
                    if not pos[id(fa)] < pos[id(fb)]:
                        nbad += 1
            mon.count("order_pairs_checked", npairs)
            if nbad:
                mon.report("backward-trace:operand-before-consumer", "an operand's backward function ran before its consumer's",
                           bad_pairs=nbad, pairs=npairs)
            if shape_dtype:
                for n in nodes:
                    g = n._grad
                    if g is not None:
                        mon.count("grad_shape_dtype_checks")
                        if tuple(g.shape) != tuple(n.data.shape):
                            mon.report(f"grad-shape:{n._operation or 'leaf'}", "a tensor's .grad has a different shape than the tensor",
                                       op=str(n._operation), grad_shape=list(g.shape), shape=list(n.data.shape))
                        elif g.dtype != n.data.dtype:
                            kind = "root" if n is self_t else ("leaf" if n._grad_fn is None else "interior")
                            mon.report(f"grad-dtype:{kind}", "a tensor's .grad has a different dtype than the tensor",
                                       op=str(n._operation), grad_dtype=str(g.dtype), dtype=str(n.data.dtype))
            if release:
                retain_all = bool(ns.tmod.retain_grads__)
                for n in nodes:
                    if id(n) not in req:
                        continue
                    is_leaf = n._grad_fn is None
                    if is_leaf and n.requires_grad and n._grad is None:
                        mon.report("release:leaf-lost-gradient", "a reachable leaf that requires grad has no gradient after backward")
                    if (not is_leaf) and n is not self_t and not n._retain_grad and not retain_all and n._grad is not None:
                        mon.report("release:intermediate-kept-gradient", "a non-retained intermediate kept its gradient after backward",
                                   op=str(n._operation))
                    mon.count("release_checks")
                if self_t._grad is None:
                    mon.report("release:root-lost-gradient", "the root of backward lost its gradient")
            if mon.keep_sweeps:
                mon.sweeps.append({"nodes": len(nodes), "fns": len(fn_of), "calls": len(calls), "pairs": npairs})
            return res
        self._patch(BF, "__call__", bf_call)
        self._patch(T, "backward", backward)

    # -------------------------------------------------------------- LiveTensorRegistry
    def install_live_registry(self):
        if "live" in self.installed or not ENABLED:
            return
        self.installed.add("live")
        T = self.ns.Tensor
        orig_init = T.__init__
        self.live = weakref.WeakSet()
        mon = self

        @functools.wraps(orig_init)
        def init(self_t, *a, **k):
            orig_init(self_t, *a, **k)
            mon.live.add(self_t)
        self._patch(T, "__init__", init)

    def live_count(self):
        gc.collect()
        return len(self.live)

    # -------------------------------------------------------------- GradModeMonitor
    def install_grad_mode_monitor(self):
        if "mode" in self.installed or not ENABLED:
            return
        self.installed.add("mode")
        tm = self.ns.tmod
        mon = self
        for cls, nm in ((tm.no_grad, "no_grad"), (tm.retain_grads, "retain_grads")):
            if not (isinstance(cls, type) and hasattr(cls, "__enter__") and hasattr(cls, "__exit__")):
                # a factory returning context managers (e.g. a @contextmanager function): wrap the factory wherever the library exposes it
                def make_factory(orig, nm):
                    class _Proxy:
                        def __init__(self, inner):
                            self._inner = inner

                        def __enter__(self):
                            r = self._inner.__enter__()
                            mon.mode_events.append((nm, "__enter__", bool(tm.gradient__), bool(tm.retain_grads__)))
                            mon.count("grad_mode_events")
                            return r

                        def __exit__(self, *a):
                            try:
                                return self._inner.__exit__(*a)
                            finally:
                                mon.mode_events.append((nm, "__exit__", bool(tm.gradient__), bool(tm.retain_grads__)))
                                mon.count("grad_mode_events")

                    @functools.wraps(orig)
                    def factory(*a, **k):
                        return _Proxy(orig(*a, **k))
                    return factory
                new = make_factory(cls, nm)
                import sys as _sys
                for modname, mod in list(_sys.modules.items()):
                    if mod is not None and (modname == "synapgrad" or modname.startswith("synapgrad.")) and getattr(mod, nm, None) is cls:
                        self._patch(mod, nm, new)
                continue
            for meth in ("__enter__", "__exit__"):
                orig = getattr(cls, meth)

                def make(orig, nm, meth):
                    @functools.wraps(orig)
                    def w(self_c, *a):
                        r = orig(self_c, *a)
                        mon.mode_events.append((nm, meth, bool(tm.gradient__), bool(tm.retain_grads__)))
                        mon.count("grad_mode_events")
                        return r
                    return w
                self._patch(cls, meth, make(orig, nm, meth))


def selftest(ns):
    m = Monitors(ns)
    if not ENABLED:
        return "disabled (SYNAPGRAD_VERIF unset)"
    m.install_kernel_sanitizer(); m.install_stride_sanitizer(); m.install_backward_trace(); m.install_live_registry()
    m.install_grad_mode_monitor()
    x = ns.Tensor(np.random.randn(1, 1, 5, 5), requires_grad=True)
    w = ns.Tensor(np.random.randn(2, 1, 3, 3), requires_grad=True)
    with ns.sg.no_grad():
        pass
    y = ns.sg.conv2d(x, w, None, 1, 1, 1)
    y = ns.sg.relu(y)
    y.sum().backward()
    c = m.counters
    assert c.get("kernel_calls", 0) > 0 and c.get("as_strided_calls", 0) > 0 and c.get("backward_sweeps") == 1
    assert c.get("grad_fn_invocations", 0) >= 3 and c.get("grad_mode_events", 0) == 2 and m.live_count() > 0
    assert not m.viol, m.viol
    m.uninstall()
    return dict(c)
