"""C07 — requires_grad propagation and the grad-mode contexts behave like a stack (O3 stack model + behavioural probes)."""
import json
import numpy as np
from harness import gen, monitors

PID = "C07"
RULE = ("random nested programs over {with no_grad, with retain_grads} to depth 6 with exits by exception at any depth, context objects that "
        "are fresh, constructed early (under another mode) and entered later, or re-entered; after every enter/exit a behavioural probe creates "
        "leaves (float32/float64/int32/int64, either requested flag), applies ops to mixed operands (tensor ops, nn ops, multi-output, scalars) "
        "and checks requires_grad / grad_fn / is_leaf / backward() refusal / setter and retain_grad()/numpy()/detach() guards against a stack "
        "model; backward inside/outside the contexts checks leaf-keeps / intermediate-releases / retained-keeps; distinct key = nesting "
        "structure (kinds, context source, raise flags); non-trivial = depth >= 2 or a pre-constructed / re-entered context or an exception exit")
RULE += (' Added after the seeded rounds: identity-shaped ops (x**0, x**1, x*1, no-op reshapes), complex / bool dtypes, a rejected setter leaves the flag off, `requires_grad = False` always accepted, leaves that once were results of untracked ops, intermediates receiving an all-zero gradient; context objects that cannot be re-entered are replaced and counted.')
RULE += (" Round 6 / reach monitor: layer (Module) forms of every layer / loss on requiring, constant, frozen inputs in both call forms; calls that are legally refused (seed of another shape, non-tensor seed, incompatible shapes, empty geometries) followed by the mode probes; detach() of an intermediate result and its re-use as a leaf.")
ASSUMPTIONS = ["for retain_grads only the two unambiguous combinations are asserted: built and differentiated inside => interior gradients kept; both "
               "outside with no retain_grad() => released",
               "requesting requires_grad=True for an integer tensor while gradients are disabled may either raise or yield a tensor that does not require grad"]
SHARD_TIMEOUT = {"quick": 900, "thorough": 3600}


class Boom(Exception):
    pass


def gen_block(rng, depth, maxdepth, budget):
    block = []
    n = int(rng.integers(1, 4))
    for _ in range(n):
        if budget[0] <= 0:
            break
        r = rng.random()
        if r < 0.55 and depth < maxdepth:
            budget[0] -= 1
            kind = "no_grad" if rng.random() < 0.6 else "retain_grads"
            src = ["fresh", "fresh", "early", "reenter"][int(rng.integers(4))]
            block.append({"t": "with", "kind": kind, "src": src, "raise": bool(rng.random() < 0.25),
                          "body": gen_block(rng, depth + 1, maxdepth, budget)})
        else:
            block.append({"t": ["probe_backward", "probe_ops", "probe_guards"][int(rng.integers(3))]})
    return block


def gen_cases(tier, seed):
    rng = gen.rng_for(seed, "c07", tier)
    n = 1200 if tier == "quick" else 60000
    cases = [{"program": [{"t": "with", "kind": "no_grad", "src": "fresh", "raise": False, "body": [
        {"t": "with", "kind": "no_grad", "src": "early", "raise": False, "body": [{"t": "probe_ops"}]}, {"t": "probe_ops"}]}], "seed": 1}]
    for k in range(n):
        cases.append({"program": gen_block(rng, 0, int(rng.integers(1, 7)), [int(rng.integers(2, 14))]), "seed": int(rng.integers(2 ** 31))})
    return cases


def V(sig, what, **detail):
    return {"sig": sig, "what": what, "detail": detail}


def shape_of(block):
    return [[a["kind"][0], a["src"][0], int(a["raise"]), shape_of(a["body"])] if a["t"] == "with" else a["t"][6] for a in block]


def depth_of(block, d=0):
    return max([d] + [depth_of(a["body"], d + 1) for a in block if a["t"] == "with"])


def flags_of(block):
    f = set()
    for a in block:
        if a["t"] == "with":
            if a["src"] != "fresh":
                f.add(a["src"])
            if a["raise"]:
                f.add("raise")
            f |= flags_of(a["body"])
    return f


def run_case(ns, mon, case):
    T, sg, tm = ns.Tensor, ns.sg, ns.tmod
    rng = gen.rng_for(case["seed"], "c07")
    viol = []
    counters = {"programs": 1}
    model = {"grad": True, "retain": False}
    trail = []
    # context objects constructed "early": at program start, and one constructed inside a no_grad / retain_grads block
    early = {"no_grad": sg.no_grad(), "retain_grads": sg.retain_grads()}
    with sg.no_grad():
        with sg.retain_grads():
            early_inside = {"no_grad": sg.no_grad(), "retain_grads": sg.retain_grads()}
    reuse = {"no_grad": sg.no_grad(), "retain_grads": sg.retain_grads()}
    x64 = T(np.array([1.0, -2.0, 3.0]), requires_grad=True)
    x32 = T(np.array([0.5, 1.5, 2.5], dtype=np.float32), requires_grad=True)
    c64 = T(np.array([2.0, 2.0, 2.0]))
    m22 = T(np.array([[1.0, 2.0], [3.0, 4.0]]), requires_grad=True)

    def bad(sig, what, **d):
        viol.append(V(sig, what, trail=list(trail), model=dict(model), **d))

    def probe_flags(where):
        counters["probes"] = counters.get("probes", 0) + 1
        a = T(1.0, requires_grad=True)
        if bool(a.requires_grad) != model["grad"]:
            bad("mode:leaf-creation-flag", f"a leaf created with requires_grad=True {where}: requires_grad={a.requires_grad}, gradient mode should be {'on' if model['grad'] else 'off'}")
        y = x64 * 2.0
        if bool(y.requires_grad) != model["grad"]:
            bad("mode:op-result-flag", f"result of an op on a tensor requiring grad {where}: requires_grad={y.requires_grad}, expected {model['grad']}")
        if (y.grad_fn is not None) != model["grad"]:
            bad("mode:grad_fn-presence", f"grad_fn presence {y.grad_fn is not None} != gradient mode {model['grad']}")
        # the real flags, sampled (diagnostic evidence; the behavioural probes above decide)
        counters["flag_samples"] = counters.get("flag_samples", 0) + 1

    def probe_ops():
        counters["probe_ops"] = counters.get("probe_ops", 0) + 1
        g = model["grad"]
        res = {
            "mul(req,noreq)": (x64 * c64, True), "add(noreq,noreq)": (c64 + c64, False), "scalar-left": (2.0 - x64, True),
            "matmul": (m22 @ m22, True), "sum": (x64.sum(), True), "index": (x64[1:], True), "relu": (sg.relu(x64), True),
            "softmax": (sg.softmax(m22, 1), True), "float32": (x32 * x32, True), "concat": (sg.concat([x64, c64], 0), True),
            "mse(target req)": (sg.mse_loss(c64, x64), True), "noreq-nn": (sg.tanh(c64), False), "div": (c64 / x64, True),
            "pow": (x64 ** 2, True), "clone": (x64.clone(), True), "reshape": (m22.reshape((4,)), True),
        }
        for o in sg.unbind(m22, 0):
            res[f"unbind{len(res)}"] = (o, True)
        # the iteration protocol hands out results of an indexing op: elements of a tensor that requires grad follow the mode like any result
        for o in x64:
            res[f"iter(1-D) element {len(res)}"] = (o, True)
        e0, e1, e2 = x64
        res["unpacked element"] = (e1, True)
        res["list(x)[i]"] = (list(x32)[2], True)
        for o in m22:
            res[f"iter(2-D) row {len(res)}"] = (o, True)
        for o in c64:
            res[f"iter(const) element {len(res)}"] = (o, False)
        res["builtin sum(x)"] = (sum(x64), True)
        # operands of different floating dtypes: the result follows the mode whichever side requires grad
        c32 = T(np.array([0.5, 1.5, 2.5], dtype=np.float32))
        res["mul(const float32, req float64)"] = (c32 * x64, True)
        res["mul(req float32, const float64)"] = (x32 * c64, True)
        res["div(const float32, req float64)"] = (c32 / x64, True)
        res["add(const float64, req float32)"] = (c64 + x32, True)
        res["sub(const float32, req float64)"] = (c32 - x64, True)
        res["matmul(const float32, req float64)"] = (T(np.ones((2, 2), dtype=np.float32)) @ m22, True)
        # nn ops where exactly one (non-first) operand requires grad
        cb = T(np.array([[1.0, 2.0], [3.0, 5.0], [0.5, 0.1]]))
        wreq, breq = T(np.array([1.0, 2.0]), requires_grad=True), T(np.array([0.0, 1.0]), requires_grad=True)
        wc, bc = T(np.array([1.0, 2.0])), T(np.array([0.0, 1.0]))
        res["batch_norm(only bias req)"] = (sg.batch_norm(cb, wc, breq, None, None, True), True)
        res["batch_norm(only weight req)"] = (sg.batch_norm(cb, wreq, bc, None, None, True), True)
        res["batch_norm(no weight, bias req)"] = (sg.batch_norm(cb, None, breq, None, None, True), True)
        res["linear(only bias req)"] = (sg.linear(cb, T(np.ones((3, 2))), T(np.zeros(3), requires_grad=True)), True)
        res["linear(only weight req)"] = (sg.linear(cb, T(np.ones((3, 2)), requires_grad=True), T(np.zeros(3))), True)
        res["conv1d(only bias req)"] = (sg.conv1d(T(np.ones((1, 1, 4))), T(np.ones((2, 1, 2))), T(np.zeros(2), requires_grad=True)), True)
        res["mse(pred req)"] = (sg.mse_loss(x64, c64), True)
        # ops that may hand back their operand unchanged must still produce a result that follows the mode
        res["reshape(same shape)"] = (m22.reshape((2, 2)), True)
        res["reshape(-1 same)"] = (x64.reshape((-1,)), True)
        res["flatten(no-op)"] = (x64.flatten(), True)
        res["squeeze(nothing to squeeze)"] = (m22.squeeze(), True)
        res["transpose(d,d)"] = (m22.transpose(0, 0), True)
        res["movedim(d,d)"] = (m22.movedim(1, 1), True)
        res["index(full slice)"] = (x64[:], True)
        res["mul by 1"] = (x64 * 1.0, True)
        res["add 0"] = (x64 + 0.0, True)
        res["pow 1"] = (x64 ** 1, True)
        res["pow 0"] = (x64 ** 0, True)
        res["pow 0.0"] = (sg.pow(x64, 0.0), True)
        res["rpow"] = (2.0 ** x64, True)
        res["mul by 0"] = (x64 * 0.0, True)
        res["stack(const first)"] = (sg.stack([c64, x64], 0), True)
        res["concat(const first)"] = (sg.concat([c64, x64], 0), True)
        res["addmm(only a req)"] = (sg.addmm(T(np.zeros((2, 2)), requires_grad=True), T(np.ones((2, 2))), T(np.ones((2, 2)))), True)
        # layer (Module) forms: the result of a layer applied to an input that requires grad follows the mode like any op result;
        # frozen layers (no parameter requires grad) on a constant input give a constant
        nn_ = ns.nn
        img = T(np.arange(32, dtype=np.float64).reshape(1, 2, 4, 4) / 7.0 - 2.0, requires_grad=True)
        sig1 = T(np.array([[[0.5, -1.0, 2.0, 0.3, 1.5, -0.7]]]), requires_grad=True)
        xb = T(np.array([[1.0, 2.0, -1.0], [0.5, 0.1, 3.0], [2.0, -2.0, 0.0], [1.5, 1.0, 1.0]]), requires_grad=True)
        cimg, cxb = T(img.data.copy()), T(xb.data.copy())
        pr = T(np.array([[0.2, 0.7], [0.6, 0.4]]), requires_grad=True)
        layers_ = [
            ("Linear", nn_.Linear(3, 2), xb), ("Linear(no bias)", nn_.Linear(3, 2, bias=False), xb), ("Neuron", nn_.Neuron(3), xb),
            ("Flatten", nn_.Flatten(), img), ("Dropout(0)", nn_.Dropout(0), xb), ("Dropout(0.5)", nn_.Dropout(0.5), xb), ("Dropout(1)", nn_.Dropout(1), xb),
            ("Dropout(1.0)", nn_.Dropout(1.0), xb), ("Unfold", nn_.Unfold(2), img), ("MaxPool1d", nn_.MaxPool1d(2), sig1), ("MaxPool2d", nn_.MaxPool2d(2), img),
            ("AvgPool1d", nn_.AvgPool1d(2), sig1), ("AvgPool2d", nn_.AvgPool2d(2), img), ("Conv1d", nn_.Conv1d(1, 2, 3), sig1),
            ("Conv1d(no bias)", nn_.Conv1d(1, 2, 3, bias=False), sig1), ("Conv2d", nn_.Conv2d(2, 1, 3), img), ("Conv2d(no bias)", nn_.Conv2d(2, 1, 3, bias=False), img),
            ("BatchNorm1d", nn_.BatchNorm1d(3), xb), ("BatchNorm1d(no affine)", nn_.BatchNorm1d(3, affine=False), xb),
            ("BatchNorm2d(no stats)", nn_.BatchNorm2d(2, track_running_stats=False), img),
            ("ReLU", nn_.ReLU(), xb), ("LeakyReLU", nn_.LeakyReLU(0.1), xb), ("SELU", nn_.SELU(), xb), ("Tanh", nn_.Tanh(), xb), ("Sigmoid", nn_.Sigmoid(), xb),
            ("Softmax", nn_.Softmax(1), xb), ("LogSoftmax", nn_.LogSoftmax(1), xb),
            ("Sequential", nn_.Sequential(nn_.Linear(3, 3), nn_.Tanh(), nn_.Linear(3, 1)), xb),
        ]
        for lname, layer, inp in layers_:
            res[f"layer {lname}(x req)"] = (layer(inp), True)
            res[f"layer {lname}.forward(x req)"] = (layer.forward(inp), True)
        for lname, layer, inp in layers_:
            has_params = bool(layer.parameters())
            if has_params:
                res[f"layer {lname}(const x, trainable layer)"] = (layer(T(inp.data.copy())), True)
                layer.freeze()
                res[f"layer {lname}(x req, frozen layer)"] = (layer(inp), True)
            res[f"layer {lname}(const x, frozen/parameter-free layer)"] = (layer(T(inp.data.copy())), False)
        bnm = nn_.BatchNorm1d(3); bnm.eval()
        res["layer BatchNorm1d.eval()(x req)"] = (bnm(xb), True)
        seq_e = nn_.Sequential(nn_.Linear(3, 2), nn_.ReLU()); seq_e.eval()
        res["layer Sequential.eval()(x req)"] = (seq_e(xb), True)
        tgt = T(np.array([[0.0, 1.0], [1.0, 0.0]]))
        lab = T(np.array([1, 0]))
        for lname, lossm, a_, b_ in (("MSELoss", nn_.MSELoss(), pr, tgt), ("BCELoss", nn_.BCELoss(), pr, tgt), ("BCEWithLogitsLoss", nn_.BCEWithLogitsLoss(), pr, tgt),
                                     ("CrossEntropyLoss", nn_.CrossEntropyLoss(), pr, lab), ("NLLLoss", nn_.NLLLoss(), pr, lab),
                                     ("MSELoss(sum)", nn_.MSELoss(reduction="sum"), pr, tgt), ("CrossEntropyLoss(none)", nn_.CrossEntropyLoss(reduction="none"), pr, lab)):
            res[f"loss {lname}(pred req)"] = (lossm(a_, b_), True)
            res[f"loss {lname}(const pred)"] = (lossm(T(a_.data.copy()), b_), False)
        for name, (t, anyreq) in res.items():
            want = g and anyreq
            if bool(t.requires_grad) != want:
                bad("propagation:result-flag", f"{name}: requires_grad={t.requires_grad}, expected {want} (mode {g}, some operand requires grad: {anyreq})", op=name)
            if (t.grad_fn is not None) != want:
                bad("propagation:grad_fn", f"{name}: grad_fn present={t.grad_fn is not None}, expected {want}", op=name)
            if bool(t.is_leaf) != (not want):
                bad("propagation:is_leaf", f"{name}: is_leaf={t.is_leaf}", op=name)
            if not want:
                try:
                    t.backward(T(np.ones(t.shape)))
                    bad("propagation:backward-accepted-on-non-requiring-result", f"{name}: backward() accepted on a result that does not require grad", op=name)
                except RuntimeError:
                    pass
                if t._grad is not None:
                    bad("propagation:non-requiring-result-acquired-grad", f"{name}: a result not requiring grad holds a gradient", op=name)

    def probe_guards():
        counters["probe_guards"] = counters.get("probe_guards", 0) + 1
        g = model["grad"]
        for dt in (np.int32, np.int64):
            try:
                ti = T(np.array([1, 2, 3], dtype=dt), requires_grad=True)
                if ti.requires_grad:
                    bad("guards:integer-tensor-requires-grad", f"an {np.dtype(dt).name} tensor was created requiring grad")
                elif g:
                    counters["integer_requires_grad_silently_dropped"] = counters.get("integer_requires_grad_silently_dropped", 0) + 1
            except RuntimeError:
                pass
            # dtype= conversions: what counts is the dtype the tensor ends up with
            for how, mk in (("float data, integer dtype", lambda: T(np.array([1.0, 2.0]), dtype=dt, requires_grad=True)),
                            ("ones factory", lambda: sg.ones(2, dtype=dt, requires_grad=True)),
                            ("zeros factory", lambda: sg.zeros((2, 2), dtype=dt, requires_grad=True)),
                            ("arange factory", lambda: sg.arange(3, dtype=dt, requires_grad=True))):
                try:
                    tc = mk()
                    if tc.requires_grad and not np.issubdtype(tc.dtype, np.floating):
                        bad("guards:integer-tensor-requires-grad", f"{how}: a {tc.dtype} tensor requires grad")
                except RuntimeError:
                    pass
            ti = T(np.array([1, 2, 3], dtype=dt))
            try:
                ti.requires_grad = True
                if ti.requires_grad:
                    bad("guards:setter-integer", "requires_grad setter made an integer tensor require grad")
            except RuntimeError:
                if ti.requires_grad:
                    bad("guards:rejected-setter-left-flag-on", "the requires_grad setter refused an integer tensor but left it requiring grad")
            for truthy in (np.True_, 1, np.int64(1)):
                tj = T(np.array([1, 2, 3], dtype=dt))
                try:
                    tj.requires_grad = truthy          # e.g. the result of np.any(...)
                except RuntimeError:
                    pass
                if tj.requires_grad:
                    bad("guards:setter-integer", f"requires_grad = {truthy!r} made an integer tensor require grad")
            try:
                ti.requires_grad = False            # switching the flag off is always possible
            except Exception as e:
                bad("guards:setter-refuses-False", f"requires_grad = False on an integer tensor raised {type(e).__name__}")
            r = ti * 2
            if r.requires_grad or r.grad_fn is not None:
                bad("guards:integer-op-result-requires-grad", "op on integer tensors produced a result requiring grad")
        # "only floating-point tensors can be made to require grad": complex and bool are not floating point
        for dt in (np.complex64, np.complex128, np.bool_):
            try:
                tc = T(np.array([1, 0], dtype=dt), requires_grad=True)
                if tc.requires_grad:
                    bad("guards:non-float-tensor-requires-grad", f"a {np.dtype(dt).name} tensor was created requiring grad")
            except RuntimeError:
                pass
            tc = T(np.array([1, 0], dtype=dt))
            try:
                tc.requires_grad = True
                if tc.requires_grad:
                    bad("guards:non-float-tensor-requires-grad", f"requires_grad setter made a {np.dtype(dt).name} tensor require grad")
            except RuntimeError:
                if tc.requires_grad:
                    bad("guards:rejected-setter-left-flag-on", f"the requires_grad setter refused a {np.dtype(dt).name} tensor but left it requiring grad")
        for dt in (np.float32, np.float64):
            tf = T(np.array([1.0, 2.0], dtype=dt))
            tf.requires_grad = True
            if not tf.requires_grad:
                bad("guards:setter-float-leaf", "requires_grad setter did not take effect on a floating leaf")
            tf.requires_grad = False
            if tf.requires_grad:
                bad("guards:setter-float-leaf", "requires_grad setter could not clear the flag of a leaf")
        y = x64 * 3.0
        if y.requires_grad:
            # guards named in the code anchors but not in the statement: observed and counted, not asserted
            for nm, f in (("setter-non-leaf", lambda: setattr(y, "requires_grad", False)), ("numpy-on-requiring", lambda: y.numpy())):
                try:
                    f()
                    counters["guard_not_raised:" + nm] = counters.get("guard_not_raised:" + nm, 0) + 1
                except RuntimeError:
                    counters["guard_raised:" + nm] = counters.get("guard_raised:" + nm, 0) + 1
            if not y.requires_grad and y.grad_fn is not None:
                bad("propagation:grad_fn-on-non-requiring", "a tensor that does not require grad carries a backward function")
        try:
            c64.retain_grad()
            counters["guard_not_raised:retain_grad-on-non-requiring"] = counters.get("guard_not_raised:retain_grad-on-non-requiring", 0) + 1
        except RuntimeError:
            counters["guard_raised:retain_grad-on-non-requiring"] = counters.get("guard_raised:retain_grad-on-non-requiring", 0) + 1
        try:
            c64.backward()
            bad("guards:backward-on-non-requiring", "backward() accepted a tensor that does not require grad")
        except RuntimeError:
            pass
        d = x64.detach()
        if d.requires_grad or d.grad_fn is not None or np.shares_memory(d.data, x64.data):
            bad("guards:detach", "detach() result requires grad, has a grad_fn or shares storage")
        # detach() of an intermediate result: a constant cut off from its history; switched back on it is a leaf of the graphs built from it
        xs_ = T(np.array([1.0, 2.0, 3.0]), requires_grad=True)
        mid = (xs_ * 2.0) + 1.0
        dm = mid.detach()
        if dm.requires_grad or dm.grad_fn is not None or not dm.is_leaf or np.shares_memory(dm.data, mid.data):
            bad("guards:detach:non-leaf", f"detach() of an intermediate result: requires_grad={dm.requires_grad}, grad_fn present={dm.grad_fn is not None}, is_leaf={dm.is_leaf}")
        else:
            dm.requires_grad = True
            if g:
                try:
                    if not dm.is_leaf or dm.grad_fn is not None:
                        bad("guards:detach:non-leaf", "a detached intermediate that was switched to require grad is not a leaf")
                    (dm * dm).sum().backward()
                    if dm._grad is None or not np.allclose(dm._grad, 2 * dm.data) or xs_._grad is not None:
                        bad("guards:detach:non-leaf:gradient", "backward through a detached-and-re-enabled intermediate: wrong leaf gradient or the old graph was reached",
                            got=None if dm._grad is None else dm._grad.tolist(), reached_source=xs_._grad is not None)
                except Exception as e:
                    bad("guards:detach:non-leaf:backward-raises", f"backward from a graph built on a detached intermediate raised {type(e).__name__}: {str(e)[:120]}")
        # calls that are legally refused must leave the gradient mode (and what ops produce afterwards) exactly as it was
        yv = x64 * 2.0
        refused = [
            ("backward(seed of another shape)", lambda: yv.backward(T(np.ones((2, 2))))),
            ("backward(seed longer)", lambda: (x64 * 3.0).backward(T(np.ones(4)))),
            ("backward(non-tensor seed)", lambda: (x64 * 3.0).backward(np.ones(3))),
            ("backward() of a non-scalar", lambda: (x64 * 3.0).backward()),
            ("add(incompatible shapes)", lambda: x64 + T(np.ones(2))),
            ("matmul(incompatible shapes)", lambda: m22 @ T(np.ones((3, 2)), requires_grad=True)),
            ("reshape(impossible)", lambda: x64.reshape((2, 2))),
            ("conv1d(kernel longer than input)", lambda: sg.conv1d(T(np.ones((1, 1, 2)), requires_grad=True), T(np.ones((1, 1, 3)), requires_grad=True))),
            ("max_pool2d(kernel larger than input)", lambda: sg.max_pool2d(T(np.ones((1, 1, 2, 2)), requires_grad=True), 3)),
            ("item() of several elements", lambda: x64.item()),
            ("unfold(size larger than the dimension)", lambda: x64.unfold(0, 5, 1)),
            ("concat(incompatible)", lambda: sg.concat([x64, m22], 0)),
        ]
        for what_, call_ in refused:
            try:
                with np.errstate(all="ignore"):
                    call_()
                counters["refused_call_answered"] = counters.get("refused_call_answered", 0) + 1
            except Exception:
                counters["refused_calls"] = counters.get("refused_calls", 0) + 1
            trail.append("refused: " + what_)
            probe_flags("after the refused call " + what_)
            trail.pop()
        if c64.numpy() is None:
            bad("guards:numpy", "numpy() returned nothing")

    def probe_backward():
        counters["probe_backward"] = counters.get("probe_backward", 0) + 1
        if not model["grad"]:
            # graph built outside (before), differentiated inside no_grad: leaves must still get the true gradient
            return
        xl = T(np.array([1.0, 2.0, -1.0]), requires_grad=True)
        nl = T(np.array([3.0, 3.0, 3.0]))
        h1 = xl * xl
        h2 = h1 + nl
        kept = xl * 2.0
        kept.retain_grad()
        out = (h2 * kept).sum()
        retain_all_at_build = model["retain"]
        out.backward()
        want = 3 * xl.data ** 2 * 2 + 2 * nl.data            # d/dx (x^2+3)*2x = 6x^2 + 6
        if xl._grad is None or not np.allclose(xl._grad, 6 * xl.data ** 2 + 6):
            bad("release:leaf-gradient", "leaf did not keep the true gradient after backward", got=None if xl._grad is None else xl._grad.tolist())
        if nl._grad is not None:
            bad("propagation:non-requiring-operand-acquired-grad", "an operand that does not require grad acquired a gradient")
        if out._grad is None:
            bad("release:root-released", "the root backward was called on lost its gradient")
        if kept._grad is None:
            bad("release:retain_grad-ignored", "an intermediate marked with retain_grad() released its gradient")
        # an intermediate whose incoming gradient happens to be exactly zero is an intermediate like any other
        hz = xl * 3.0
        hr = -(xl * xl) - 1.0
        retain_z = model["retain"]
        ((hz * 0.0).sum() + sg.relu(hr).sum()).backward()
        if not retain_z and (hz._grad is not None or hr._grad is not None):
            bad("release:intermediate-kept:zero-gradient", "a non-retained intermediate that received an all-zero gradient kept a .grad after backward")
        # (both branches contribute exactly zero to xl, whose gradient is checked again below)
        # a leaf that once was the result of an untracked op (computed under no_grad, then switched to require grad) is a leaf like any other
        with sg.no_grad():
            made = xl * 2.0 + 1.0
        made.requires_grad = True
        fromconst = (nl * 2.0)
        fromconst.requires_grad = True
        o3 = (made * made).sum() + (fromconst * 3.0).sum()
        o3.backward()
        if made._grad is None or not np.allclose(made._grad, 2 * made.data):
            bad("release:leaf-made-under-no_grad-lost-gradient", "a leaf that was computed under no_grad and then set to require grad did not keep its gradient after backward")
        if fromconst._grad is None or not np.allclose(fromconst._grad, 3.0):
            bad("release:leaf-made-from-constants-lost-gradient", "a leaf that was computed from non-requiring operands and then set to require grad did not keep its gradient")
        # a tensor that was the root of an earlier call and is an interior node of a later one must be released by the later call
        out2 = (out * 2.0 + xl.sum()).sum()
        retain_now = model["retain"]
        out2.backward()
        if not retain_now and out._grad is not None:
            bad("release:former-root-kept-as-interior", "a former root that is an interior node of a later backward call kept its gradient")
        if xl._grad is None or not np.allclose(xl._grad, 3 * (6 * xl.data ** 2 + 6) + 1):
            bad("release:leaf-gradient-after-second-call", "leaf gradient after a second backward through a former root is wrong",
                got=None if xl._grad is None else xl._grad.tolist())
        # a leaf that is switched off (frozen) after the graph was built and before it is differentiated: the backward call completes and the
        # other leaves get their gradients (whether the frozen leaf itself still receives one is not asserted: PyTorch delivers it, skipping it is
        # just as defensible)
        for opname, mk in (("linear", lambda a_, w_, b_: sg.linear(a_, w_, b_)), ("mul+add", lambda a_, w_, b_: (a_ @ w_.transpose(0, 1)) * 1.0 + b_),
                           ("Linear layer", None)):
            a_ = T(np.array([[1.0, 2.0, -1.0], [0.5, 0.0, 2.0]]), requires_grad=True)
            if mk is None:
                lay = ns.nn.Linear(3, 2)
                w_, b_ = lay.weight, lay.bias
                o_ = lay(a_)
            else:
                w_ = T(np.array([[1.0, -1.0, 0.5], [2.0, 0.0, 1.0]]), requires_grad=True)
                b_ = T(np.array([0.1, -0.2]), requires_grad=True)
                o_ = mk(a_, w_, b_)
            w_.requires_grad = False
            try:
                o_.sum().backward()
                counters["frozen_after_forward_sweeps"] = counters.get("frozen_after_forward_sweeps", 0) + 1
                wd_ = np.asarray(w_.data, dtype=np.float64)
                if a_._grad is None or not np.allclose(a_._grad, np.broadcast_to(wd_.sum(0), a_.shape)) or b_._grad is None or not np.allclose(b_._grad, 2.0):
                    bad("release:leaf-gradient:operand-frozen-after-forward", f"{opname}: after an operand was frozen between forward and backward the other leaves did not get their gradients")
            except Exception as e:
                bad("mode:backward-raises:operand-frozen-after-forward", f"{opname}: backward raised {type(e).__name__} because an operand was frozen between forward and backward", error=str(e)[:120])
        # an operand that holds a gradient from earlier training and is frozen now: ops that use it as a constant leave that gradient alone
        for opname, mk in (("addmm", lambda f_, r_: sg.addmm(r_, f_, T(np.eye(2)))), ("addmm(frozen first)", lambda f_, r_: sg.addmm(f_, r_, T(np.eye(2)))),
                           ("matmul", lambda f_, r_: f_ @ r_), ("mul", lambda f_, r_: f_ * r_), ("add", lambda f_, r_: r_ + f_), ("linear", lambda f_, r_: sg.linear(r_, f_, None)),
                           ("linear(frozen bias)", lambda f_, r_: sg.linear(r_, T(np.eye(2)), f_[0])), ("stack", lambda f_, r_: sg.stack([f_, r_], 0)),
                           ("concat", lambda f_, r_: sg.concat([r_, f_], 1)), ("mse", lambda f_, r_: sg.mse_loss(r_, f_))):
            fz = T(np.array([[1.0, 2.0], [3.0, -1.0]]), requires_grad=True)
            (fz * 3.0).sum().backward()
            fz.requires_grad = False
            keep_ = None if fz._grad is None else fz._grad.copy()
            rq = T(np.array([[0.5, -1.0], [2.0, 1.0]]), requires_grad=True)
            try:
                mk(fz, rq).sum().backward()
                counters["stale_gradient_frozen_operand_sweeps"] = counters.get("stale_gradient_frozen_operand_sweeps", 0) + 1
                if (fz._grad is None) != (keep_ is None) or (keep_ is not None and not np.array_equal(fz._grad, keep_)):
                    bad("propagation:frozen-operand-gradient-changed", f"{opname}: an operand that does not require grad (frozen, holding a gradient from before) had its .grad changed by a backward call",
                        op=opname)
                if rq._grad is None:
                    bad("release:leaf-gradient:frozen-co-operand", f"{opname}: the operand that requires grad received no gradient", op=opname)
            except Exception as e:
                bad("mode:backward-raises:frozen-operand-with-stale-gradient", f"{opname}: raised {type(e).__name__}", error=str(e)[:120])
        if model["retain"]:
            if h1._grad is None or h2._grad is None:
                bad("release:retain_grads-context-ignored", "intermediate gradients of a graph built and differentiated under retain_grads were released")
        else:
            if h1._grad is not None or h2._grad is not None:
                bad("release:intermediate-kept", "a non-retained intermediate kept its gradient although nothing asked for it")

    not_reusable = {}

    def exec_block(block, depth):
        for act in block:
            if act["t"] == "with":
                kind = act["kind"]
                cls = sg.no_grad if kind == "no_grad" else sg.retain_grads
                if act["src"] == "fresh":
                    ctx = cls()
                elif act["src"] == "early":
                    ctx = (early if depth % 2 == 0 else early_inside)[kind]
                else:
                    ctx = reuse[kind]
                fld = "grad" if kind == "no_grad" else "retain"
                saved = model[fld]
                trail.append(f"enter {kind}({act['src']})")
                # (the with statement, spelled out: a context object that cannot be entered a second time - a generator-based one - is
                #  replaced by a fresh one and counted; re-entering one object is not something the property promises)
                if act["src"] != "fresh" and not_reusable.get(kind):
                    ctx = cls()
                try:
                    ctx.__enter__()
                except Exception:
                    if act["src"] == "fresh":
                        raise
                    not_reusable[kind] = True
                    counters["context_object_not_reusable"] = counters.get("context_object_not_reusable", 0) + 1
                    tm.gradient__, tm.retain_grads__ = model["grad"], model["retain"]
                    ctx = cls()
                    ctx.__enter__()
                try:
                    model[fld] = False if kind == "no_grad" else True
                    counters["context_entries"] = counters.get("context_entries", 0) + 1
                    probe_flags("inside " + kind)
                    exec_block(act["body"], depth + 1)
                    if act["raise"]:
                        counters["exception_exits"] = counters.get("exception_exits", 0) + 1
                        raise Boom()
                except Boom as e_:
                    try:
                        ctx.__exit__(type(e_), e_, e_.__traceback__)
                    except Boom:
                        pass
                else:
                    ctx.__exit__(None, None, None)
                model[fld] = saved
                trail.append(f"exit {kind}" + (" by exception" if act["raise"] else ""))
                probe_flags("after leaving " + kind)
                if len(viol) > 4:
                    return
            elif act["t"] == "probe_ops":
                probe_ops()
            elif act["t"] == "probe_guards":
                probe_guards()
            else:
                probe_backward()

    # a graph built before any context, differentiated at the very end inside no_grad
    pre_x = T(np.array([1.0, 2.0]), requires_grad=True)
    pre_out = (pre_x * pre_x).sum()
    try:
        exec_block(case["program"], 0)
        probe_flags("at top level after the program")
        probe_ops(); probe_guards(); probe_backward()
        with sg.no_grad():
            pre_out.backward()
        if pre_x._grad is None or not np.allclose(pre_x._grad, 2 * pre_x.data):
            bad("mode:backward-inside-no_grad", "backward called inside no_grad on a graph built outside did not deliver the gradient")
    finally:
        # never leave the process-wide flags disturbed for the next case
        tm.gradient__, tm.retain_grads__ = True, False
    # monitor evidence: the flags sampled at every enter/exit
    ev = mon.mode_events
    counters["mode_events_sampled"] = len(ev)
    mon.mode_events = []
    mv = [v for v in mon.drain() if not v["sig"].startswith("grad-dtype")]
    fl = flags_of(case["program"])
    dp = depth_of(case["program"])
    nontrivial = dp >= 2 or bool(fl)
    seen, vv = set(), []
    for v in viol + mv:
        if v["sig"] not in seen:
            seen.add(v["sig"]); vv.append(v)
    return {"key": json.dumps(shape_of(case["program"])) if nontrivial else None, "viol": vv, "counters": counters,
            "cover": {"depth": [f"depth{dp}"], "features": sorted(fl)}}


def setup(ns, tier, seed):
    mon = monitors.Monitors(ns)
    mon.install_grad_mode_monitor()
    mon.install_backward_trace(release=True)
    return mon


def teardown(ns, mon):
    return {"counters": mon.take_counters()}


def finish(agg, tier):
    c = agg["counters"]
    return [f"zero-events:{k}" for k in ("probes", "probe_ops", "probe_guards", "probe_backward", "context_entries", "exception_exits",
                                         "grad_mode_events", "release_checks") if not c.get(k)]
