"""C08 — SGD / Adam / AdamW follow the published update rules on any history (O3 executable sequential models)."""
import json
import numpy as np
from harness import gen, monitors

PID = "C08"
RULE = ("histories of 5-40 events over {backward with a fresh random gradient field (through the real engine), second backward before step, "
        "zero_grad via optimizer / module / tensor, step, step without zero_grad, freeze / unfreeze} x hyper-parameter grid (lr, momentum, "
        "dampening, nesterov, weight_decay, maximize, betas, eps - every combination the constructors accept) x 1-4 parameters of random shapes "
        "(incl. 0-d, size-1), some frozen before or midway, plus bystander parameters not given to the optimizer, float64 and float32; after "
        "every step parameter data is compared with a float64 reference implementation of the PyTorch algorithms; storage identity, dtype and "
        "shape are checked; bystanders and frozen parameters must stay byte-identical. distinct key = (optimizer, hyper-parameter class, event "
        "kind sequence); non-trivial = >= 2 steps and (momentum/moments active or weight decay or a step without zero_grad or a freeze)")
RULE += (' Added after the seeded rounds: a parameter frozen while the optimizer is constructed, `opt.lr` reassigned, a second optimizer instance over the same parameters, parameters stored as views, and the check that a trainable parameter holding a non-zero gradient moves.')
RULE += (" Round 6 / reach monitor: eps = 0 (nan-aware comparison: 0/0 exactly where the published rule has it); plain training loops of 1100-1300 steps per optimizer (step counters, bias corrections at large t).")
ASSUMPTIONS = ["reference = torch.optim algorithms as documented: Adam/AdamW negate the gradient first when maximize; coupled decay for SGD/Adam, decoupled for AdamW; "
               "momentum buffer initialised with the first gradient; bias corrections 1-beta^t",
               "SGD with maximize=True and weight_decay != 0: the SGD documentation's pseudo-code (theta + lr*(g + wd*theta)) and torch's implementation "
               "(negate g first) differ; either trajectory is accepted",
               "bias-correction step count for a parameter that skipped steps (frozen / no gradient) is not asserted: such a parameter is only required "
               "to stay fixed while frozen and to move again once trainable; for Adam/AdamW model comparison stops for it after its first skipped step (SGD stays compared)",
               "the learning rate is a public attribute (`opt.lr`); when it exists and equals the constructed value, histories may reassign it between steps "
               "(the only way to run a schedule with this library) and every later step must use the current value; signature suffix :after-lr-reassigned",
               "tolerance 1e-11 relative to max(1,|theta|) per comparison in float64, 2e-4 in float32 (model re-synchronised to the float32 data after each step)"]
SHARD_TIMEOUT = {"quick": 900, "thorough": 3600}


def gen_cases(tier, seed):
    rng = gen.rng_for(seed, "c08", tier)
    n = 3600 if tier == "quick" else 80000
    cases = []
    for k in range(n):
        kind = ["SGD", "Adam", "AdamW"][k % 3]
        hp = {"lr": float(rng.choice([1e-3, 0.1, 0.05])), "weight_decay": float(rng.choice([0, 0, 0.1, 0.5])), "maximize": bool(rng.random() < 0.3)}
        if kind == "SGD":
            hp["momentum"] = float(rng.choice([0, 0.5, 0.9]))
            hp["dampening"] = float(rng.choice([0, 0, 0.3]))
            hp["nesterov"] = bool(rng.random() < 0.3)
        else:
            hp["betas"] = [(0.9, 0.999), (0.5, 0.7), (0.0, 0.9)][int(rng.integers(3))]
            hp["eps"] = float(rng.choice([1e-8, 1e-3, 0.0, 1e-8]))        # eps = 0 is accepted by the constructors (and by PyTorch)
        cases.append({"opt": kind, "hp": hp, "seed": int(rng.integers(2 ** 31)), "n_events": int(rng.integers(5, 41)),
                      "dtype": "float32" if k % 7 == 6 else "float64"})
    # long plain training loops (zero_grad, backward, step) x 1100-1300 steps: whatever is right for the first N steps must stay right
    # (step counters, bias corrections at large t, state that saturates) - float64 only, tiny parameters
    nlong = 2 if tier == "quick" else 8
    for k in range(3 * nlong):
        kind = ["SGD", "Adam", "AdamW"][k % 3]
        hp = {"lr": [1e-3, 0.01][k % 2], "weight_decay": [0.0, 0.1][(k // 3) % 2], "maximize": False}
        if kind == "SGD":
            hp.update(momentum=0.9, dampening=[0.0, 0.3][(k // 3) % 2], nesterov=False)
        else:
            hp.update(betas=[(0.9, 0.999), (0.8, 0.9995)][(k // 3) % 2], eps=1e-8)
        cases.append({"opt": kind, "hp": hp, "seed": int(rng.integers(2 ** 31)), "n_events": 3 * int(rng.integers(1100, 1300)),
                      "dtype": "float64", "script": ["zero", "bw", "step"]})
    return cases


def V(sig, what, **detail):
    return {"sig": sig, "what": what, "detail": detail}


class RefOpt:
    """float64 reference of the torch.optim algorithms; one state dict per parameter"""

    def __init__(self, kind, hp, thetas, variant="torch"):
        self.kind, self.hp, self.variant = kind, hp, variant
        self.theta = [np.array(t, dtype=np.float64) for t in thetas]
        self.state = [dict(t=0, buf=None, m=None, v=None) for _ in thetas]

    def step(self, grads, active):
        hp = self.hp
        lr, wd, mx = hp["lr"], hp["weight_decay"], hp["maximize"]
        for i, g in enumerate(grads):
            if not active[i] or g is None:
                continue
            st = self.state[i]
            st["t"] += 1
            th = self.theta[i]
            g = np.array(g, dtype=np.float64)
            if self.kind == "SGD":
                doc = self.variant == "doc"
                if mx and not doc:
                    g = -g
                if wd != 0:
                    g = g + wd * th
                mu = hp["momentum"]
                if mu != 0:
                    if st["buf"] is None:
                        st["buf"] = g.copy()
                    else:
                        st["buf"] = mu * st["buf"] + (1 - hp["dampening"]) * g
                    g = g + mu * st["buf"] if hp["nesterov"] else st["buf"]
                self.theta[i] = th + lr * g if (mx and doc) else th - lr * g
            else:
                b1, b2 = hp["betas"]
                if mx:
                    g = -g
                if self.kind == "AdamW":
                    th = th - lr * wd * th
                elif wd != 0:
                    g = g + wd * th
                st["m"] = (1 - b1) * g if st["m"] is None else b1 * st["m"] + (1 - b1) * g
                st["v"] = (1 - b2) * g * g if st["v"] is None else b2 * st["v"] + (1 - b2) * g * g
                mh = st["m"] / (1 - b1 ** st["t"])
                vh = st["v"] / (1 - b2 ** st["t"])
                self.theta[i] = th - lr * mh / (np.sqrt(vh) + hp["eps"])


def hp_class(kind, hp):
    parts = [kind]
    if hp["weight_decay"]:
        parts.append("wd")
    if hp["maximize"]:
        parts.append("max")
    if kind == "SGD":
        if hp["momentum"]:
            parts.append("mom")
        if hp["dampening"]:
            parts.append("damp")
        if hp["nesterov"]:
            parts.append("nesterov")
    else:
        parts.append(f"b{hp['betas'][0]}")
        parts.append(f"eps{hp['eps']}")
    return "+".join(parts)


def run_case(ns, mon, case):
    T, nn = ns.Tensor, ns.nn
    rng = gen.rng_for(case["seed"], "c08")
    dt = np.dtype(case["dtype"])
    kind, hp = case["opt"], dict(case["hp"])
    counters = {"histories": 1}
    shapes = [(), (1,), (3,), (2, 3), (1, 1), (2, 2, 2)]
    npar = int(rng.integers(1, 5))
    m = nn.Module()
    params = []
    for i in range(npar + 2):           # last two are bystanders (never given to the optimizer)
        shp = shapes[int(rng.integers(len(shapes)))]
        arr_ = rng.standard_normal(shp).astype(dt)
        if len(shp) >= 2 and rng.random() < 0.3:
            # the parameter's storage is a view (a transposed / strided slice of a bigger buffer, e.g. tied or packed weights): updates go into that view
            if rng.random() < 0.5:
                arr_ = np.ascontiguousarray(arr_.T).T
            else:
                big_ = np.zeros(shp[:-1] + (2 * shp[-1],), dtype=dt); big_[..., ::2] = arr_; arr_ = big_[..., ::2]
            counters["view_parameters"] = counters.get("view_parameters", 0) + 1
        p = nn.Parameter(T(arr_, requires_grad=True))
        setattr(m, f"p{i}", p)
        params.append(p)
    opt_params = params[:npar]
    by = params[npar:]
    kw = dict(hp)
    events = []
    froze = False
    if rng.random() < 0.2 and not case.get("script"):
        # fine-tuning schedule: a parameter is frozen while the optimizer is built and unfrozen later; from then on it is a trainable
        # parameter that was given to the optimizer, so step() must move it
        j0 = int(rng.integers(npar))
        opt_params[j0].requires_grad = False
        froze = True
        events.append(f"p{j0} frozen before the optimizer is constructed")
        counters["frozen_at_construction"] = 1
    if kind != "SGD":
        kw["betas"] = tuple(kw["betas"])
    try:
        opt = getattr(ns.optim, kind)(opt_params, **kw)
    except ValueError:
        legal = not (kind == "SGD" and hp["nesterov"] and (hp["momentum"] <= 0 or hp["dampening"] != 0))
        if legal:
            return {"viol": [V(f"{kind}:constructor-rejects-legal-hyperparameters", "constructor raised ValueError for a legal combination", hp=hp)],
                    "counters": counters}
        return {"counters": dict(counters, constructor_rejected=1), "key": None}
    if kind == "SGD" and hp["nesterov"] and (hp["momentum"] <= 0 or hp["dampening"] != 0):
        return {"viol": [V("SGD:constructor-accepts-nesterov-without-momentum", "nesterov without momentum / with dampening was accepted", hp=hp)], "counters": counters}
    variants = ["torch"] + (["doc"] if kind == "SGD" and hp["maximize"] and hp["weight_decay"] else [])
    refs = {v: RefOpt(kind, hp, [p.data for p in opt_params], v) for v in variants}
    alive = set(variants)
    tracked = [True] * npar           # model comparison still meaningful for this parameter
    data_ids = [id(p.data) for p in params]
    viol = []
    kinds = []
    nsteps = 0
    nozero_step = False
    lr_changed = False
    last_was_step = False
    max_steps = 8 if dt == np.float32 else 10 ** 6

    def snap(ps):
        return [p.data.tobytes() for p in ps]

    def do_backward():
        req = [p for p in params if p.requires_grad]
        if not req:
            return False
        loss = None
        for p in req:
            c = T(rng.standard_normal(p.shape).astype(dt))
            term = (p * c).sum()
            loss = term if loss is None else loss + term
        loss.backward()
        return True

    script = case.get("script")
    for ev_i in range(case["n_events"]):
        r = rng.random()
        if script:
            r = {"bw": 0.1, "step": 0.5, "zero": 0.7}[script[ev_i % len(script)]]
        if r < 0.35:
            if do_backward():
                kinds.append("bw"); events.append("backward")
                if last_was_step:
                    nozero_step = True
            last_was_step = False
        elif r < 0.65 and nsteps < max_steps:
            grads = [None if p._grad is None else np.array(p._grad, dtype=np.float64) for p in opt_params]
            active = [bool(p.requires_grad) for p in opt_params]
            before_by = snap(by)
            before_all = snap(opt_params)
            before_frozen = {i: opt_params[i].data.tobytes() for i in range(npar) if not active[i]}
            before_nograd = {i: opt_params[i].data.tobytes() for i in range(npar) if active[i] and grads[i] is None}
            meta = [(p.data.dtype, p.data.shape) for p in params]
            grad_bytes = [None if p._grad is None else p._grad.tobytes() for p in params]
            try:
                opt.step()
            except Exception as e:
                import traceback
                cls = "no-gradient-yet" if any(g is None for g in grads) else ("frozen-parameter" if not all(active) else "plain")
                viol.append(V(f"{kind}:step-raises:{cls}", f"step() raised {type(e).__name__} in a legal history ({cls})", error=str(e)[:200],
                              hp=hp, events=events[-8:], tb=traceback.format_exc()[-400:]))
                break
            nsteps += 1
            kinds.append("step"); events.append("step")
            counters["steps"] = counters.get("steps", 0) + 1
            for v in list(alive):
                refs[v].step(grads, active)
            for i in range(npar):
                # Adam/AdamW: per-parameter or global step count in the bias correction are both defensible once a parameter has skipped a step
                # -> its trajectory is no longer compared (it must still move, below); SGD has no such ambiguity and stays compared
                if (not active[i] or grads[i] is None) and kind != "SGD":
                    tracked[i] = False
            for i in range(npar):
                if active[i] and grads[i] is not None and np.any(grads[i] != 0) and np.all(np.isfinite(grads[i])) and hp["lr"] > 0:
                    counters["moved_checks"] = counters.get("moved_checks", 0) + 1
                    if opt_params[i].data.tobytes() == before_all[i] and not (hp.get("eps", 1) == 0 and not np.all(np.isfinite(opt_params[i].data))):
                        viol.append(V(f"{kind}:trainable-parameter-with-gradient-not-updated",
                                      "a parameter that was given to the optimizer, requires grad and holds a non-zero gradient was not changed by step()",
                                      hp=hp, events=events[-10:], index=i))
            for j, p in enumerate(params):
                if id(p.data) != data_ids[j]:
                    viol.append(V(f"{kind}:parameter-storage-replaced", "step() rebound parameter.data to a new array instead of updating in place", hp=hp))
                    data_ids[j] = id(p.data)
                if (p.data.dtype, p.data.shape) != meta[j]:
                    viol.append(V(f"{kind}:parameter-dtype-or-shape-changed", f"parameter changed from {meta[j]} to {(p.data.dtype, p.data.shape)}", hp=hp))
            if [None if p._grad is None else p._grad.tobytes() for p in params] != grad_bytes:
                viol.append(V(f"{kind}:step-modified-gradient", "step() changed a parameter's .grad (gradients must survive a step until they are reset)", hp=hp))
            if snap(by) != before_by:
                viol.append(V(f"{kind}:bystander-parameter-changed", "a parameter that was not given to the optimizer changed during step()", hp=hp))
            for i, b in before_frozen.items():
                if opt_params[i].data.tobytes() != b:
                    viol.append(V(f"{kind}:frozen-parameter-moved" + (":weight-decay" if hp["weight_decay"] else ""),
                                  "a frozen parameter (requires_grad=False) was changed by step()", hp=hp, had_grad=grads[i] is not None))
            for i, b in before_nograd.items():
                if opt_params[i].data.tobytes() != b:
                    viol.append(V(f"{kind}:gradientless-parameter-moved", "a parameter without a gradient was changed by step()", hp=hp))
            # trajectory comparison
            tol = 1e-11 if dt == np.float64 else 2e-4
            ok_variants = set()
            worst = None
            for v in alive:
                good = True
                for i in range(npar):
                    if not tracked[i]:
                        continue
                    want = refs[v].theta[i]
                    got = opt_params[i].data.astype(np.float64)
                    with np.errstate(all="ignore"):
                        if hp.get("eps", 1) == 0 and np.array_equal(np.isnan(got), np.isnan(want)):
                            # eps = 0 with an exactly zero gradient history is 0/0 in the published rule as well (PyTorch yields nan too):
                            # the implementation must be nan exactly where the rule is, and agree everywhere else
                            fin_ = ~np.isnan(want)
                            err = np.max(np.abs(got[fin_] - want[fin_]) / np.maximum(1.0, np.abs(want[fin_]))) if fin_.any() else 0.0
                        else:
                            err = np.max(np.abs(got - want) / np.maximum(1.0, np.abs(want))) if got.size else 0.0
                    counters["trajectory_comparisons"] = counters.get("trajectory_comparisons", 0) + 1
                    if not (err <= tol):
                        good = False
                        worst = (v, i, float(err), got.tolist() if got.size < 10 else None, want.tolist() if want.size < 10 else None)
                if good:
                    ok_variants.add(v)
            if not ok_variants:
                cls = hp_class(kind, hp)
                viol.append(V(f"{kind}:trajectory-differs-from-reference:{cls}" + (":after-step-without-zero_grad" if nozero_step else "")
                              + (":after-lr-reassigned" if lr_changed else ""),
                              f"parameter after step {nsteps} differs from the reference update rule (rel err {worst[2]:.3g})", hp=hp, events=events[-40:],
                              got=worst[3], want=worst[4], step=nsteps))
                break
            alive &= ok_variants
            if dt == np.float32:
                for v in alive:
                    for i in range(npar):
                        refs[v].theta[i] = opt_params[i].data.astype(np.float64)
            last_was_step = True
        elif r < 0.80:
            which = int(rng.integers(3)) if not script else 0
            if which == 0:
                opt.zero_grad()
            elif which == 1:
                m.zero_grad()
            else:
                params[int(rng.integers(len(params)))].zero_()
            kinds.append(["zo", "zm", "zt"][which]); events.append(["zero_grad(optimizer)", "zero_grad(module)", "zero_(tensor)"][which])
            if which == 0:
                counters["zero_grad_checks"] = counters.get("zero_grad_checks", 0) + 1
                left = [i for i, p in enumerate(opt_params) if p._grad is not None and np.any(p._grad != 0)]
                if left:
                    viol.append(V(f"{kind}:zero_grad-left-a-gradient" + (":frozen-parameter" if any(not opt_params[i].requires_grad for i in left) else ""),
                                  "optimizer.zero_grad() left a non-zero gradient on a parameter it holds (frozen parameters included: their stale "
                                  "gradient would be added to the next one after unfreezing)", hp=hp, events=events[-8:], which=left))
            last_was_step = False
        elif r < 0.90:
            i = int(rng.integers(npar))
            if opt_params[i].requires_grad:
                opt_params[i].requires_grad = False
                froze = True
                kinds.append("freeze"); events.append(f"freeze p{i}")
            else:
                opt_params[i].requires_grad = True
                kinds.append("unfreeze"); events.append(f"unfreeze p{i}")
        elif r < 0.93:
            # the learning rate is a public attribute; reassigning it is how a schedule / warm-up is run with this library
            if getattr(opt, "lr", None) == hp["lr"]:
                hp["lr"] = hp["lr"] * 0.5           # the reference models share this dict
                opt.lr = hp["lr"]
                lr_changed = True
                kinds.append("lr"); events.append(f"opt.lr = {hp['lr']}")
                counters["lr_reassigned"] = counters.get("lr_reassigned", 0) + 1
        elif r < 0.96:
            # a second optimizer instance over the same parameters (LR sweep, fine-tuning stage): it starts from fresh state
            kw2 = dict(kw, lr=hp["lr"])
            try:
                opt = getattr(ns.optim, kind)(opt_params, **kw2)
            except Exception as e:
                viol.append(V(f"{kind}:constructor-raises:second-instance", f"constructing a second optimizer over the same parameters raised {type(e).__name__}", error=str(e)[:200]))
                break
            refs = {v: RefOpt(kind, hp, [p.data for p in opt_params], v) for v in variants}
            alive = set(variants)
            tracked = [True] * npar
            kinds.append("new-opt"); events.append("new optimizer instance over the same parameters")
            counters["second_instances"] = counters.get("second_instances", 0) + 1
        if len(viol) > 3:
            break
    mv = [v for v in mon.drain() if not v["sig"].startswith(("grad-dtype", "release"))]
    nontrivial = nsteps >= 2 and (hp.get("momentum", 0) != 0 or kind != "SGD" or hp["weight_decay"] != 0 or nozero_step or froze)
    seen, vv = set(), []
    for v in viol + mv:
        if v["sig"] not in seen:
            seen.add(v["sig"]); vv.append(v)
    key = json.dumps([hp_class(kind, hp), case["dtype"], kinds if not script else ["long-loop", len(kinds)]]) if nontrivial else None
    return {"key": key, "viol": vv, "counters": counters,
            "cover": {"hp_classes": [hp_class(kind, hp)], "features": [k for k, b in (("step-without-zero_grad", nozero_step), ("freeze", froze), ("lr-reassigned", lr_changed), ("second-optimizer-instance", "new-opt" in kinds),
                                                                                     ("float32", dt == np.float32), ("doc-variant-considered", len(variants) > 1), ("long-loop>1000-steps", bool(script) and nsteps > 1000)) if b]},
            "sample": {"case": case, "events": events[:30]}}


def setup(ns, tier, seed):
    mon = monitors.Monitors(ns)
    mon.install_backward_trace()
    return mon


def teardown(ns, mon):
    return {"counters": mon.take_counters()}


def finish(agg, tier):
    c = agg["counters"]
    return [f"zero-events:{k}" for k in ("steps", "trajectory_comparisons") if not c.get(k)]
