"""C05 — forward results of tensor ops and constructors match the NumPy/PyTorch semantics they mirror (O2)."""
import itertools, json, math
import numpy as np
from harness import gen, catalog, monitors
from harness.catalog import OPS, Reject

PID = "C05"
RULE = ("tensor-op catalogue x call forms x argument grid (legal grid enumerated; illegal variants added: out-of-range / repeated dims, "
        "non-broadcastable or mismatched shapes, bad reshape sizes, start>end) x dtype {float32,float64} x value class, plus constructors "
        "(shape forms, dtype, values, flag), scalar operators on both sides and iteration protocols; oracle = independent float64 NumPy "
        "reference + verdict table (value/raise x documented/undocumented); distinct key = (op, form, argclass, shape class, dtype, verdict "
        "kind); non-trivial = result has >1 element, or the case is on the rejection side")
RULE += (' Added after the seeded rounds: operands stored as Fortran / strided / shared-base views; every factory call independent of what was written into an earlier result; integer / bool operands under a refuse-or-right verdict; IEEE special values (nan, +-inf, -0.0) and operands with an empty dimension through the data-movement, arithmetic and reduction ops.')
RULE += (" Round 6 / reach monitor: tuple / list shape forms of randn / rand, randn moments, item(), list @ Tensor.")
ASSUMPTIONS = ["reference models in harness/catalog.py are transcribed from the NumPy/PyTorch documentation; a value is 'prescribed' if either semantics defines it",
               "value tolerance = forward-error bound K*eps(dtype)*S with S the reference evaluated on |operands| and K = 32 + 4*log2(reduction length)",
               "an exception for an argument form the op's own docstring does not state is counted (rejected-undocumented), not a violation"]
SHARD_TIMEOUT = {"quick": 900, "thorough": 3600}


def illegal_variants(name, shapes, args, rng):
    """argument combinations that both NumPy and PyTorch reject"""
    out = []
    r = len(shapes[0]) if shapes else 0
    if name in ("sum", "mean", "max", "min") and r >= 1:
        out += [(shapes, dict(args, dim=r)), (shapes, dict(args, dim=-r - 1))]
        if r >= 2:
            out += [(shapes, dict(args, dim=[0, 0])), (shapes, dict(args, dim=[0, -r]))]
    if name == "squeeze" and r >= 1:
        out += [(shapes, {"dim": r}), (shapes, {"dim": -r - 1})]
    if name == "unsqueeze":
        out += [(shapes, {"dim": r + 1}), (shapes, {"dim": -r - 2})]
    if name == "reshape":
        n = int(np.prod(shapes[0])) if shapes[0] else 1
        out += [(shapes, {"shape": [n + 1]}), (shapes, {"shape": [-1, -1]}), (shapes, {"shape": [n + 1, -1]})]
    if name in ("movedim",) and r >= 1 and isinstance(args.get("source"), int):
        out += [(shapes, {"source": r, "destination": 0}), (shapes, {"source": 0, "destination": -r - 1})]
    if name == "transpose" and r >= 1:
        out += [(shapes, {"dim0": r, "dim1": 0}), (shapes, {"dim0": 0, "dim1": -r - 1})]
    if name == "flatten" and r >= 2:
        out += [(shapes, {"start_dim": 1, "end_dim": 0}), (shapes, {"start_dim": -1, "end_dim": 0}), (shapes, {"start_dim": r, "end_dim": -1}),
                (shapes, {"start_dim": 0, "end_dim": r})]
    if name in ("concat",) and r >= 1:
        out += [(shapes, {"dim": r}), (shapes, {"dim": -r - 1})]
        bad = [list(s) for s in shapes] + [[e + 1 for e in shapes[0]]]
        out += [(bad, {"dim": 0})] if r >= 2 else []
    if name == "stack":
        out += [(shapes, {"dim": r + 1}), (shapes, {"dim": -r - 2}), ([list(s) for s in shapes] + [[e + 1 for e in shapes[0]]], {"dim": 0})]
        if r >= 1 and any(e != 1 for e in shapes[0]):
            # unequal shapes that would broadcast to the first one are unequal shapes all the same: stacking never broadcasts
            out += [([list(shapes[0]), [1] * r], {"dim": 0}), ([list(shapes[0]), [1] * r, list(shapes[0])], {"dim": -1}), ([list(shapes[0]), list(shapes[0])[1:]], {"dim": 0})]
    if name == "concat" and r >= 2 and any(e != 1 for e in shapes[0][1:]):
        out += [([list(shapes[0]), [shapes[0][0]] + [1] * (r - 1)], {"dim": 0})]
    if name == "unbind" and r >= 1:
        out += [(shapes, {"dim": r}), (shapes, {"dim": -r - 1})]
    if name in ("add", "mul", "sub", "div") and r >= 1 and shapes[0][-1] != 1:
        out += [([shapes[0], shapes[0][:-1] + [shapes[0][-1] + 1]], {})]
    if name == "matmul" and len(shapes[0]) >= 2:
        out += [([shapes[0], [shapes[0][-1] + 1, 2]], {})]
    if name == "addmm":
        out += [([[2, 2], [2, 3], [2, 2]], {}), ([[3, 3], [2, 3], [3, 2]], {})]
    if name == "slice" and r >= 1:
        out += [(shapes, {"index": gen.enc_index(shapes[0][0])}), (shapes, {"index": gen.enc_index(tuple([0] * (r + 1)))})]
    return out


def gen_cases(tier, seed):
    rng = gen.rng_for(seed, "c05", tier)
    budget = {"quick": 600, "thorough": 15000}[tier]
    cases = []
    for name, op in OPS.items():
        g = catalog.grid(name, tier, rng)
        per = []
        seen_illegal = set()
        for shapes, args in g:
            for form in op.forms:
                if form in ("left", "right") and args.get("side") != form:
                    continue
                per.append((shapes, args, form, False))
            for s2, a2 in illegal_variants(name, shapes, args, rng):
                k = json.dumps([s2, a2], sort_keys=True)
                if k not in seen_illegal:
                    seen_illegal.add(k)
                    per.append((s2, a2, list(op.forms)[0], True))
        if len(per) > budget:
            strata = {}
            for it in per:
                k = (it[2], op.argclass(it[1], it[0]) if not it[3] else "illegal", catalog.shape_class(it[0]), it[3])
                strata.setdefault(k, []).append(it)
            keep = [v[int(rng.integers(len(v)))] for v in strata.values()]
            extra = max(0, budget - len(keep))
            rest = [it for it in per if it not in keep]
            if extra and rest:
                keep += [rest[int(i)] for i in rng.choice(len(rest), min(extra, len(rest)), replace=False)]
            per = keep
        for n, (shapes, args, form, ill) in enumerate(per):
            vopts = catalog.vclass_options(op, args)
            cases.append({"kind": "op", "op": name, "form": form, "shapes": shapes, "args": args, "vclass": vopts[n % len(vopts)],
                          "dtype": ["float64", "float32"][n % 2], "illegal_variant": ill, "seed": int(rng.integers(2 ** 31))})
    # IEEE special values (nan, +-inf, -0.0) flow through the data-movement, arithmetic and reduction ops exactly as through NumPy
    for name in ("add", "sub", "mul", "neg", "sum", "mean", "max", "min", "reshape", "transpose", "movedim", "concat", "stack", "unbind", "slice", "squeeze",
                 "unsqueeze", "flatten", "clone", "exp", "relu" if "relu" in OPS else "neg"):
        op = OPS[name]
        g = catalog.grid(name, "quick", rng)
        for k in range(min(len(g), 6 if tier == "quick" else 60)):
            shapes, args = g[int(rng.integers(len(g)))]
            forms_ = [f for f in op.forms if not (f in ("left", "right") and args.get("side") != f) and "mutated" not in f]
            cases.append({"kind": "op", "op": name, "form": forms_[k % len(forms_)], "shapes": shapes, "args": args, "vclass": "special",
                          "dtype": ["float64", "float32"][k % 2], "illegal_variant": False, "seed": int(rng.integers(2 ** 31))})
    # empty-but-legal operands: one dimension of extent 0 (an empty batch): shapes follow the same rules, nothing raises that NumPy accepts
    for name in ("add", "mul", "neg", "sum", "mean", "transpose", "movedim", "squeeze", "unsqueeze", "flatten", "clone", "exp", "concat", "stack", "unbind"):
        op = OPS[name]
        g = [it for it in catalog.grid(name, "quick", rng) if it[0] and all(len(s_) >= 1 for s_ in it[0]) and len({tuple(s_) for s_ in it[0]}) == 1]
        for k in range(min(len(g), 4 if tier == "quick" else 40)):
            shapes, args = g[int(rng.integers(len(g)))]
            j = int(rng.integers(len(shapes[0])))
            shapes = [[0 if i_ == j else v_ for i_, v_ in enumerate(s_)] for s_ in shapes]
            forms_ = [f for f in op.forms if not (f in ("left", "right") and args.get("side") != f) and "mutated" not in f]
            cases.append({"kind": "op", "op": name, "form": forms_[k % len(forms_)], "shapes": shapes, "args": args, "vclass": "normal",
                          "dtype": ["float64", "float32"][k % 2], "illegal_variant": False, "seed": int(rng.integers(2 ** 31)), "empty_operand": True})
    # rank-5 and bigger operands (forward only)
    for name in ("add", "mul", "sum", "mean", "max", "transpose", "movedim", "flatten", "reshape", "squeeze", "unsqueeze"):
        for k in range(4 if tier == "quick" else 40):
            shp = [int(v) for v in rng.integers(1, 4, 5)]
            a = None
            if name in ("add", "mul"):
                pats = gen.broadcast_patterns(shp)
                shapes = [shp, pats[int(rng.integers(len(pats)))]]
                a = {}
            elif name in ("sum", "mean", "max"):
                nd = int(rng.integers(1, 4))
                dims = [int(d) - (5 if rng.random() < 0.5 else 0) for d in rng.choice(5, nd, replace=False)]
                shapes, a = [shp], {"dim": dims if nd > 1 else dims[0], "keepdims": bool(rng.integers(2))}
            elif name == "transpose":
                shapes, a = [shp], {"dim0": int(rng.integers(-5, 5)), "dim1": int(rng.integers(-5, 5))}
            elif name == "movedim":
                shapes, a = [shp], {"source": int(rng.integers(-5, 5)), "destination": int(rng.integers(-5, 5))}
            elif name == "flatten":
                s_, e_ = sorted(int(v) for v in rng.integers(0, 5, 2))
                shapes, a = [shp], {"start_dim": s_ - (5 if rng.random() < 0.5 else 0), "end_dim": e_ - (5 if rng.random() < 0.5 else 0)}
            elif name == "reshape":
                shapes, a = [shp], {"shape": [-1, shp[-1]]}
            elif name == "squeeze":
                shapes, a = [shp], {"dim": [None, int(rng.integers(-5, 5))][int(rng.integers(2))]}
            elif name == "unsqueeze":
                shapes, a = [shp], {"dim": int(rng.integers(-6, 6))}
            op = OPS[name]
            cases.append({"kind": "op", "op": name, "form": list(op.forms)[k % len(op.forms)], "shapes": shapes, "args": a,
                          "vclass": catalog.vclass_options(op, a)[0], "dtype": ["float64", "float32"][k % 2], "illegal_variant": False,
                          "seed": int(rng.integers(2 ** 31))})
    # constructors, scalar precision, iteration
    for k in range(12 if tier == "quick" else 120):
        cases.append({"kind": "ctor", "seed": int(rng.integers(2 ** 31)), "variant": k})
    for k in range(8 if tier == "quick" else 80):
        cases.append({"kind": "scalar_ops", "seed": int(rng.integers(2 ** 31))})
    for k in range(6 if tier == "quick" else 60):
        cases.append({"kind": "int_ops", "seed": int(rng.integers(2 ** 31))})
    for shp in [[3], [2, 3], [3, 2, 2], [1], [4, 1], []]:
        cases.append({"kind": "iteration", "shape": shp, "seed": int(rng.integers(2 ** 31))})
    return cases


def V(sig, what, **detail):
    return {"sig": sig, "what": what, "detail": detail}


def fwd_bound(ref, ref_abs, dtype, redlen=1):
    eps = np.finfo(dtype).eps
    K = 32 + 4 * math.log2(max(2, redlen))
    S = np.maximum(np.abs(ref), np.abs(ref_abs))
    return K * eps * np.maximum(S, np.finfo(dtype).tiny * 1e3)


def compare_value(got, ref, ref_abs, dtype, redlen):
    got = np.asarray(got)
    if tuple(got.shape) != tuple(ref.shape):
        return f"shape {list(got.shape)} != {list(ref.shape)}"
    if got.size == 0:
        return None
    b = fwd_bound(ref, ref_abs, dtype, redlen)
    d = np.abs(got.astype(np.float64) - ref)
    with np.errstate(invalid="ignore"):
        bad = ~(d <= b)
    bad &= ~(np.isnan(ref) & np.isnan(got.astype(np.float64)))
    with np.errstate(invalid="ignore"):
        bad &= ~(got.astype(np.float64) == ref)               # equal infinities
    if bad.any():
        i = tuple(int(v) for v in np.argwhere(bad)[0])
        return f"value at {list(i)}: got {got[i]!r}, want {ref[i]!r} (bound {b[i] if np.ndim(b) else b:.3g})"
    return None


def run_op(ns, case):
    op = OPS[case["op"]]
    a = case["args"]
    rng = gen.rng_for(case["seed"], "vals")
    xs64 = catalog.make_operands(case, rng)
    dt = np.dtype(case["dtype"])
    xs = [x.astype(dt) for x in xs64]
    xsr = [x.astype(np.float64) for x in xs]    # the reference sees exactly the values the library sees
    argclass = op.argclass(a, case["shapes"]) if not case["illegal_variant"] else "illegal"
    sigbase = f"{op.name}:{argclass}"
    counters = {}
    try:
        ref = op.ref(xsr, a)
        ref_abs = op.ref([np.abs(x) for x in xsr], a) if case["op"] not in ("slice",) else ref
        rej = False
    except Reject:
        ref, rej = None, True
    except (ZeroDivisionError, FloatingPointError):
        return {"counters": {"ref_domain_error": 1}}
    storage = ["plain", "plain", "transposed", "strided", "plain", "shared-base"][case["seed"] % 6]
    pool_ = {}
    ts = [ns.Tensor(gen.as_storage(x.copy(), storage, None, pool_)) for x in xs]        # same values, possibly a Fortran-ordered / strided view
    if a.get("alias"):
        ts = [ts[0]] * len(ts)
    try:
        with np.errstate(all="ignore"):
            out = op.forms[case["form"]](ns, ts, a)
        raised = None
    except Exception as e:
        out, raised = None, e
    viol = []
    verdict = None
    if rej and raised is not None:
        verdict = "both-reject"
    elif rej:
        verdict = "answered-illegal"
        o = out[0] if isinstance(out, (tuple, list)) and out else out
        viol.append(V(sigbase + ":answered-what-it-cannot-honour", "an argument combination that NumPy and PyTorch both reject was answered with a value",
                      result_shape=list(getattr(o, "shape", ())) if o is not None else None))
    elif raised is not None:
        if op.documented(a, case["shapes"]):
            verdict = "documented-form-rejected"
            viol.append(V(sigbase + ":documented-form-rejected", f"argument form stated by the op's docstring raised {type(raised).__name__}",
                          error=str(raised)[:200]))
        else:
            verdict = "rejected-undocumented"
            counters["rejected_undocumented"] = 1
    else:
        verdict = "value"
        outs = list(out) if isinstance(out, (tuple, list)) else [out]
        refs = list(ref) if isinstance(ref, tuple) else [ref]
        refas = list(ref_abs) if isinstance(ref_abs, tuple) else [ref_abs]
        if len(outs) != len(refs):
            viol.append(V(sigbase + ":wrong-answer", f"number of results {len(outs)} != {len(refs)}"))
        else:
            redlen = max([x.size for x in xs] + [1])
            for o, r_, ra in zip(outs, refs, refas):
                why = compare_value(o.data, np.asarray(r_, dtype=np.float64), np.asarray(ra, dtype=np.float64), dt, redlen)
                if why:
                    kind = "shape" if why.startswith("shape") else "value"
                    if kind == "value" and o.data.dtype != dt:
                        kind = "value-precision-lost"
                    if kind == "value" and op.name == "log" and dt == np.float64 and \
                            compare_value(o.data, np.log(xsr[0] + 1e-12), np.log(xsr[0] + 1e-12), dt, redlen) is None:
                        # mechanism: the 1e-12 guard constant added before the logarithm
                        viol.append(V("log:epsilon-guard:float64-precision", "log(x) is computed as log(x + 1e-12): " + why))
                        break
                    viol.append(V(sigbase + f":wrong-answer:{kind}", "result differs from the reference semantics: " + why,
                                  result_dtype=str(o.data.dtype)))
                    break
    nontrivial = verdict != "value" or (ref is not None and max((np.asarray(r_).size for r_ in (ref if isinstance(ref, tuple) else [ref])), default=0) > 1)
    key = (op.name, case["form"], argclass, catalog.shape_class(case["shapes"]), case["dtype"], verdict) if nontrivial else None
    counters[f"verdict:{verdict}"] = 1
    return {"key": key, "viol": viol, "counters": counters,
            "cover": {"ops": [op.name], "forms": [f"{op.name}.{case['form']}"], "verdicts": [verdict], "argclasses": [sigbase], "storage": [storage]}}


def run_ctor(ns, case):
    sg = ns.sg
    rng = gen.rng_for(case["seed"], "ctor")
    viol = []
    keys = []
    n = 0

    def chk(name, t, shape, dtype=None, vals=None, flag=False, pred=None, ulps=0):
        nonlocal n
        n += 1
        if not isinstance(t, ns.Tensor):
            viol.append(V(f"ctor:{name}:type", "constructor did not return a Tensor")); return
        if tuple(t.shape) != tuple(shape):
            viol.append(V(f"ctor:{name}:shape", f"shape {list(t.shape)} != {list(shape)}"))
        if dtype is not None and t.dtype != np.dtype(dtype):
            viol.append(V(f"ctor:{name}:dtype", f"dtype {t.dtype} != requested {np.dtype(dtype)}"))
        if vals is not None and tuple(t.shape) == tuple(np.shape(vals)):
            g64_, v64_ = np.asarray(t.data, dtype=np.float64), np.asarray(vals, dtype=np.float64)
            if ulps:
                e_ = float(np.finfo(t.data.dtype).eps) if np.issubdtype(t.data.dtype, np.floating) else 0.0
                ok_ = bool(np.all(np.abs(g64_ - v64_) <= ulps * e_ * max(1.0, float(np.max(np.abs(v64_))) if v64_.size else 1.0)))
            else:
                ok_ = np.array_equal(g64_, v64_)
            if not ok_:
                viol.append(V(f"ctor:{name}:value", "values differ from the reference", got=np.asarray(t.data).tolist()[:8], want=v64_.tolist()[:8]))
        if pred is not None and not pred(t.data):
            viol.append(V(f"ctor:{name}:range", "values outside the documented range"))
        if bool(t.requires_grad) != bool(flag):
            viol.append(V(f"ctor:{name}:requires_grad", f"requires_grad {t.requires_grad} != requested {flag}"))
        keys.append(("ctor", name, len(shape), str(dtype), flag))

    rank = int(rng.integers(0, 4))
    shp = tuple(int(v) for v in rng.integers(1, 4, rank))
    dt = [None, "float32", "float64"][case["variant"] % 3]
    flag = bool(case["variant"] % 2)
    kw = dict(requires_grad=flag)
    if dt:
        kw["dtype"] = np.dtype(dt).type
    for nm, fill in (("ones", 1.0), ("zeros", 0.0), ("empty", None)):
        f = getattr(sg, nm)
        if rank >= 1:
            chk(nm + ":varargs", f(*shp, **kw), shp, dt, None if fill is None else np.full(shp, fill), flag)
        chk(nm + ":tuple", f(shp, **kw), shp, dt, None if fill is None else np.full(shp, fill), flag)
        chk(nm + ":list", f(list(shp), **kw), shp, dt, None if fill is None else np.full(shp, fill), flag)
    src = ns.Tensor(rng.standard_normal(shp).astype([np.float32, np.float64][case["variant"] % 2]))
    chk("ones_like", sg.ones_like(src, **kw), shp, dt or src.dtype, np.ones(shp), flag)
    chk("zeros_like", sg.zeros_like(src, **kw), shp, dt or src.dtype, np.zeros(shp), flag)
    for interval in [(5,), (2, 7), (1, 10, 3), (0, 1, 0.25), (5, 0, -1), (0, 1, 0.3), (2, -1, -0.4), (0.5, 3.2, 0.7), (0, 10, 3.5)]:
        t_ar = sg.arange(*interval, **kw)
        ar_ = np.arange(*interval)
        # (a float step accumulates rounding in the result dtype: a few ulps of the largest element)
        chk("arange", t_ar, ar_.shape, dt, ar_, flag, ulps=0 if all(float(v_) == int(v_) for v_ in interval) else 8)
    d = int(rng.integers(1, 5))
    chk("eye", sg.eye(d, **kw), (d, d), dt, np.eye(d), flag)
    if rank >= 1:
        chk("rand", sg.rand(*shp, **kw), shp, dt, None, flag, pred=lambda a: bool(np.all((a >= 0) & (a < 1))))
        chk("randn", sg.randn(*shp, **kw), shp, dt, None, flag, pred=lambda a: bool(np.all(np.isfinite(a))))
        chk("rand:tuple", sg.rand(shp, **kw), shp, dt, None, flag, pred=lambda a: bool(np.all((a >= 0) & (a < 1))))
        chk("normal", sg.normal(3.0, 0.0, *shp, **kw), shp, dt, np.full(shp, 3.0), flag)
        # reach monitor: the tuple / list shape forms of the Gaussian factory were never driven
        chk("randn:tuple", sg.randn(shp, **kw), shp, dt, None, flag, pred=lambda a: bool(np.all(np.isfinite(a))))
        chk("randn:list", sg.randn(list(shp), **kw), shp, dt, None, flag, pred=lambda a: bool(np.all(np.isfinite(a))))
        chk("rand:list", sg.rand(list(shp), **kw), shp, dt, None, flag, pred=lambda a: bool(np.all((a >= 0) & (a < 1))))
        big_ = sg.randn(4000, **kw)
        if abs(float(np.mean(big_.data))) > 0.12 or abs(float(np.std(big_.data)) - 1) > 0.1:      # 7.6 sigma / 9 sigma at n = 4000
            viol.append(V("ctor:randn:distribution", "randn is not standard normal", mean=float(np.mean(big_.data)), std=float(np.std(big_.data))))
    # item(): the single element, as a number; several elements cannot be converted
    one_ = ns.Tensor(np.array([[2.5]], dtype=np.float64))
    try:
        if float(one_.item()) != 2.5 or float(ns.Tensor(np.float64(-1.25)).item()) != -1.25:
            viol.append(V("item:value", "item() of a one-element tensor is not its element"))
        keys.append(("item", "value"))
    except Exception as e:
        viol.append(V("item:raises", f"item() of a one-element tensor raised {type(e).__name__}"))
    try:
        got_ = ns.Tensor(np.arange(3.0)).item()
        viol.append(V("item:several-elements-answered", f"item() of a 3-element tensor returned {got_!r}"))
    except Exception:
        keys.append(("item", "refused"))
    # reflected matmul with a plain nested list on the left (NumPy arrays take the other path through ndarray.__matmul__)
    try:
        m_ = rng.standard_normal((3, 2))
        r_ = [[1.0, 2.0, 3.0], [0.5, -1.0, 0.0]] @ ns.Tensor(m_)
        if tuple(r_.shape) != (2, 2) or not np.allclose(np.asarray(r_.data, dtype=np.float64), np.array([[1.0, 2.0, 3.0], [0.5, -1.0, 0.0]]) @ m_, rtol=1e-6, atol=1e-6):
            viol.append(V("operator:rmatmul-list:value", "list @ Tensor differs from the matrix product"))
        keys.append(("rmatmul", "list"))
    except Exception as e:
        pass            # a refusal is fine (undocumented operand type)
    if rank >= 1:
        pass
    lo, hi = -3, 4
    ti = sg.randint(lo, hi, shp if rank else (2,))
    chk("randint", ti, shp if rank else (2,), None, None, False,
        pred=lambda a: bool(np.all((a >= lo) & (a < hi)) and np.issubdtype(a.dtype, np.integer)))
    # tensor(): exactness of data for the requested dtype
    data64 = rng.standard_normal(shp if rank else (3,))
    t64 = sg.tensor(data64, dtype=np.float64, requires_grad=flag)
    chk("tensor:float64-array", t64, data64.shape, "float64", data64, flag)
    t64l = sg.tensor(data64.tolist(), dtype=np.float64)
    chk("tensor:float64-list", t64l, data64.shape, "float64", data64, False)
    t32 = sg.tensor(data64)
    chk("tensor:default", t32, data64.shape, "float32", data64.astype(np.float32), False)
    T64 = ns.Tensor(data64.tolist(), dtype=np.float64)
    chk("Tensor:float64-list", T64, data64.shape, "float64", data64, False)
    T64a = ns.Tensor(data64)
    chk("Tensor:float64-array", T64a, data64.shape, "float64", data64, False)
    # every call of a factory returns a fresh, correct tensor: what the caller did to an earlier result (optimizer steps write in place) is not seen
    nind = 0
    for nm, make, ref in (("ones", lambda: sg.ones(shp or (2,)), np.ones(shp or (2,))), ("zeros", lambda: sg.zeros(shp or (2,)), np.zeros(shp or (2,))),
                          ("eye", lambda: sg.eye(d), np.eye(d)), ("eye:float64", lambda: sg.eye(d, dtype=np.float64), np.eye(d)),
                          ("arange", lambda: sg.arange(5), np.arange(5)), ("ones_like", lambda: sg.ones_like(src), np.ones(shp)),
                          ("zeros_like", lambda: sg.zeros_like(src), np.zeros(shp))):
        try:
            r1 = make()
            r1.data[...] = -7
            r2 = make()
            r1.data[...] = -9
        except Exception as e:
            viol.append(V(f"ctor:{nm}:raises", f"{nm} raised {type(e).__name__} on a repeated call", error=str(e)[:200])); continue
        nind += 1
        if np.shares_memory(r1.data, r2.data) or not np.array_equal(np.asarray(r2.data, dtype=np.float64), ref):
            viol.append(V(f"ctor:{nm}:result-depends-on-earlier-result", f"a second {nm}() call returned values that follow what was written into the first result",
                          got=np.asarray(r2.data).ravel()[:6].tolist()))
    return {"keys": keys, "evals": n + nind, "viol": dedup(viol), "counters": {"ctor_checks": n, "factory_independence_checks": nind},
            "cover": {"ctors": sorted({k[1] for k in keys})}}


def dedup(viol):
    seen, out = set(), []
    for v in viol:
        if v["sig"] not in seen:
            seen.add(v["sig"]); out.append(v)
    return out


def run_scalar_ops(ns, case):
    """operator and reflected-operator forms with Python scalars, both dtypes, checked at the operand dtype's precision"""
    rng = gen.rng_for(case["seed"], "scal")
    viol, keys, n = [], [], 0
    for dt in (np.float64, np.float32):
        shp = tuple(int(v) for v in rng.integers(1, 4, int(rng.integers(0, 3))))
        x = rng.uniform(0.5, 2.0, shp).astype(dt)
        x64 = x.astype(np.float64)
        for s in (0.1, 3, -2.7, 1e-3, 7.123456789012345) + ((16777217, 123456789) if dt == np.float64 else ()):
            forms = {
                "x+s": (lambda t: t + s, x64 + s), "s+x": (lambda t: s + t, s + x64), "x-s": (lambda t: t - s, x64 - s),
                "s-x": (lambda t: s - t, s - x64), "x*s": (lambda t: t * s, x64 * s), "s*x": (lambda t: s * t, s * x64),
                "x/s": (lambda t: t / s, x64 / s), "s/x": (lambda t: s / t, s / x64), "x**2": (lambda t: t ** 2, x64 ** 2),
                "2**x": (lambda t: 2 ** t, 2 ** x64), "-x": (lambda t: -t, -x64),
            }
            for nm, (f, ref) in forms.items():
                n += 1
                try:
                    out = f(ns.Tensor(x.copy()))
                except Exception as e:
                    viol.append(V(f"scalar-op:{nm}:raises", f"operator form with a Python scalar raised {type(e).__name__}", error=str(e)[:200]))
                    continue
                why = compare_value(out.data, ref, np.abs(ref) + abs(s), np.dtype(dt), 2)
                if why:
                    viol.append(V(f"scalar-op:{np.dtype(dt).name}:python-scalar-precision" if "value" in why else f"scalar-op:{nm}:shape",
                                  f"{nm} with Python scalar {s}: " + why, dtype=np.dtype(dt).name, result_dtype=str(out.data.dtype)))
                keys.append(("scalar", nm, np.dtype(dt).name, len(shp)))
    return {"keys": keys, "evals": n, "viol": dedup(viol), "counters": {"scalar_op_checks": n}}


def run_int_ops(ns, case):
    """integer / bool tensors as operands: either the operation refuses, or it answers with the mathematically right value - never with a truncated one"""
    rng = gen.rng_for(case["seed"], "intops")
    T = ns.Tensor
    viol, keys, n, rejected = [], [], 0, 0
    shp = tuple(int(v) for v in rng.integers(1, 4, int(rng.integers(1, 3))))
    for idt in (np.int64, np.int32, np.bool_):
        if idt == np.bool_:
            tv = rng.integers(0, 2, shp).astype(bool)
            if not tv.any():
                tv.flat[0] = True
        else:
            tv = rng.integers(1, 7, shp).astype(idt) * rng.choice([-1, 1], shp).astype(idt)
        t64 = tv.astype(np.float64)
        xv = rng.uniform(0.5, 2.0, shp)
        forms = {
            "t+1": (lambda t, x: t + 1, t64 + 1), "t*t": (lambda t, x: t * t, t64 * t64), "t-x": (lambda t, x: t - x, t64 - xv), "x*t": (lambda t, x: x * t, xv * t64),
            "t.sum()": (lambda t, x: t.sum(), t64.sum()), "t.mean()": (lambda t, x: t.mean(), t64.mean()), "t.mean(0)": (lambda t, x: t.mean(0), t64.mean(0)),
            "t.mean(-1,keepdims)": (lambda t, x: t.mean(-1, True), t64.mean(-1, keepdims=True)), "t.max()": (lambda t, x: t.max(), t64.max()),
            "t*0.5": (lambda t, x: t * 0.5, t64 * 0.5), "t/2": (lambda t, x: t / 2, t64 / 2),
        }
        if idt != np.bool_:
            forms.update({"t**-1.0": (lambda t, x: t ** -1.0, 1.0 / t64), "t**-1": (lambda t, x: t ** -1, 1.0 / t64), "1/t": (lambda t, x: 1 / t, 1.0 / t64),
                          "x/t": (lambda t, x: x / t, xv / t64), "t**2": (lambda t, x: t ** 2, t64 ** 2), "t**0.5:abs": (lambda t, x: (t * t) ** 0.5, np.abs(t64)),
                          "t/t": (lambda t, x: t / t, np.ones(shp))})
        for nm, (f, ref) in forms.items():
            n += 1
            try:
                with np.errstate(all="ignore"):
                    out = f(T(tv.copy()), T(xv.copy()))
            except Exception:
                rejected += 1
                continue
            got = np.asarray(out.data, dtype=np.float64)
            ref = np.asarray(ref, dtype=np.float64)
            keys.append(("int-ops", nm, np.dtype(idt).name))
            if got.shape != ref.shape:
                viol.append(V(f"int-operand:{nm}:shape", f"{nm} on a {np.dtype(idt).name} tensor: shape {list(got.shape)} != {list(ref.shape)}"))
            elif not np.allclose(got, ref, rtol=1e-6, atol=1e-6):
                viol.append(V(f"int-operand:{nm}:answered-with-a-truncated-or-wrong-value", f"{nm} on a {np.dtype(idt).name} tensor answered {got.ravel()[:4].tolist()} "
                              f"where the value is {ref.ravel()[:4].tolist()} (refusing would have been acceptable)", dtype=np.dtype(idt).name))
    return {"keys": keys, "evals": n, "viol": dedup(viol), "counters": {"int_operand_checks": n, "int_operand_rejected": rejected}}


def run_iteration(ns, case):
    rng = gen.rng_for(case["seed"], "iter")
    shp = tuple(case["shape"])
    x = rng.standard_normal(shp)
    t = ns.Tensor(x.copy())
    viol = []
    n = 0
    if len(shp) == 0:
        for what, f in (("len", lambda: len(t)), ("iter", lambda: list(t))):
            n += 1
            try:
                f()
                viol.append(V(f"iteration:0d-{what}-answered", f"{what} of a 0-d tensor was answered"))
            except Exception:
                pass
        return {"keys": [("iter", "0d")], "evals": n, "viol": viol, "counters": {"iteration_checks": n}}
    L = shp[0]
    n += 1
    if len(t) != L:
        viol.append(V("iteration:len", f"len {len(t)} != first extent {L}"))
    items = [a for a in t]
    n += 1
    if len(items) != L or any(not np.array_equal(a.data, x[i]) for i, a in enumerate(items)):
        viol.append(V("iteration:single", "iteration does not yield x[0], x[1], ... over the first dimension", got=len(items)))
    again = [a for a in t]
    n += 1
    if len(again) != L:
        viol.append(V("iteration:restart", "a second iteration does not start from the beginning", got=len(again)))
    pairs = [(i, j) for i, a in enumerate(t) for j, b in enumerate(t)]
    n += 1
    if len(pairs) != L * L:
        viol.append(V("iteration:nested", f"nested iteration over one tensor yields {len(pairs)} pairs instead of {L * L}", L=L))
    z = list(zip(t, t))
    n += 1
    if len(z) != L or any(not (np.array_equal(a.data, x[i]) and np.array_equal(b.data, x[i])) for i, (a, b) in enumerate(z)):
        viol.append(V("iteration:simultaneous", f"two simultaneous iterators over one tensor yield {len(z)} aligned pairs instead of {L}", L=L))
    it = iter(t)
    first = next(it)
    rest = [a for a in t]
    n += 1
    if len(rest) != L:
        viol.append(V("iteration:break-restart", "iteration after an abandoned iterator does not start from the beginning"))
    return {"keys": [("iter", len(shp), L, k) for k in ("single", "nested", "zip", "restart")] if L > 1 else [], "evals": n,
            "viol": viol, "counters": {"iteration_checks": n}}


def run_case(ns, ctx, case):
    k = case["kind"]
    if k == "op":
        r = run_op(ns, case)
    elif k == "ctor":
        r = run_ctor(ns, case)
    elif k == "scalar_ops":
        r = run_scalar_ops(ns, case)
    elif k == "int_ops":
        r = run_int_ops(ns, case)
    else:
        r = run_iteration(ns, case)
    r["viol"] = r.get("viol", []) + ctx.drain()
    return r


def setup(ns, tier, seed):
    mon = monitors.Monitors(ns)
    mon.install_kernel_sanitizer()
    return mon


def teardown(ns, mon):
    return {"counters": mon.take_counters()}


def finish(agg, tier):
    c = agg["counters"]
    r = []
    for k in ("verdict:value", "verdict:both-reject", "ctor_checks", "scalar_op_checks", "iteration_checks"):
        if not c.get(k):
            r.append(f"zero-events:{k}")
    return r
