"""C01 — backward of every tensor op is the exact VJP (finite-difference oracle on the library's own forward)."""
import json
import numpy as np
from harness import gen, fd, catalog, monitors
from harness.catalog import OPS

PID = "C01"
RULE = ("catalogue of tensor ops x call forms x argument grid (enumerated for rank<=3 quick / <=4 thorough, sampled beyond) x operand "
        "broadcasting patterns x requires_grad subsets x value class x upstream-gradient class; oracle = FD of <g, forward(x)> through the "
        "library's own float64 forward (affine ops: exact central differences h=1,2; others: Richardson h,h/2,h/4), subgradient oracle at "
        "max/min ties; distinct key = (op, form, argclass, shape class, value class, g class, req); non-trivial = output has >1 element or "
        "op is a reduction, g is not all-ones and the argument choice is not an identity")
RULE += (' Added after the seeded rounds: augmented-assignment operator forms, a second backward over the same graph must exactly double every operand gradient, argument containers (index lists, operand lists) mutated by the caller after the call.')
ASSUMPTIONS = ["the reference derivative is that of the library's own forward pass (its values are decided by C05)",
               "NumPy float64 arithmetic; FD tolerance 1e-9 (affine) / 1e-6 (Richardson) relative to max(1,|phi|,|grad|)",
               "samples whose two FD estimates disagree are inconclusive, not violations; >5% inconclusive for an op makes the run inconclusive"]
EXCLUDED_DOMAIN = ["pow with n<1 at x=0 and fractional n at x<=0 (derivative formula singular; 'values in the domain of the op')",
                   "log/sqrt within 0.3 of 0 (the 1e-12 guard constant regime)", "0-d operands with an explicit dim", "empty dim tuples"]
SHARD_TIMEOUT = {"quick": 900, "thorough": 3600}

TIE_OPS = ("max", "min")


def gen_cases(tier, seed):
    rng = gen.rng_for(seed, "c01", tier)
    cases = []
    budget = {"quick": 400, "thorough": 12000}[tier]
    for name, op in OPS.items():
        g = catalog.grid(name, tier, rng)
        per = []
        for shapes, args in g:
            for form in op.forms:
                if form in ("left", "right"):
                    if args.get("side") != form:
                        continue
                per.append((shapes, args, form))
        # stratified subsample: keep at least one per (form, argclass, shapeclass)
        if len(per) > budget:
            strata = {}
            for it in per:
                k = (it[2], op.argclass(it[1], it[0]), catalog.shape_class(it[0]))
                strata.setdefault(k, []).append(it)
            keep = [v[int(rng.integers(len(v)))] for v in strata.values()]
            rest = [it for it in per if it not in keep]
            extra = max(0, budget - len(keep))
            if extra and rest:
                idx = rng.choice(len(rest), min(extra, len(rest)), replace=False)
                keep += [rest[int(i)] for i in idx]
            per = keep
        for n, (shapes, args, form) in enumerate(per):
            vopts = catalog.vclass_options(op, args)
            vc = vopts[n % len(vopts)]
            nops = len(shapes)
            if nops == 1:
                req = [True]
            else:
                pats = [[True] * nops] + [[i == j for i in range(nops)] for j in range(nops)] + [[i != 0 for i in range(nops)]]
                req = pats[n % len(pats)]
                if not any(req) or args.get("alias"):
                    req = [True] * nops
                if form.endswith("ndarray_right"):
                    req = [True, False]
            gc = gen.G_CLASSES[n % 4] if n % 9 else gen.G_CLASSES[4 + (n // 9) % 2]
            c = {"op": name, "form": form, "shapes": shapes, "args": args, "vclass": vc, "gclass": gc, "req": req,
                 "seed": int(rng.integers(2 ** 31))}
            cases.append(c)
            if name in TIE_OPS and n % 3 == 0:
                c2 = dict(c); c2["vclass"] = "intvalued"; c2["tie"] = True
                cases.append(c2)
    return cases


def V(sig, what, **detail):
    return {"sig": sig, "what": what, "detail": detail}


STORAGE = ["plain"]          # how the operand arrays of the current case are stored (set by run_case; same values, other memory layout)


def forward(ns, op, form, xs, req, args):
    T = ns.Tensor
    pool = {}
    st = STORAGE[0]
    mk = (lambda x: x.copy()) if st == "plain" else (lambda x: gen.as_storage(x.copy(), st, None, pool))
    if args.get("alias"):
        t0 = T(mk(xs[0]), requires_grad=req[0])
        ts = [t0 for _ in xs]
    else:
        ts = [T(mk(x), requires_grad=r) for x, r in zip(xs, req)]
    out = op.forms[form](ns, ts, args)
    return ts, out


def is_identity_args(opname, a, shapes):
    r = len(shapes[0]) if shapes else 0
    if opname == "transpose":
        return r == 0 or a["dim0"] % r == a["dim1"] % r
    if opname == "movedim" and isinstance(a["source"], int):
        return r == 0 or a["source"] % r == a["destination"] % r
    if opname == "flatten":
        return r <= 1 or a["start_dim"] % r == a["end_dim"] % r
    return False


def check_tie_subgradient(x, grad, g, a, opname):
    """max/min over dims with ties: grad must vanish off the arg-extremum set and distribute g over it with weights >= 0 summing to 1"""
    dim = catalog.tup(a["dim"])
    ds = catalog.norm_dims(dim, x.ndim)
    red = np.maximum if opname == "max" else np.minimum
    m = x
    for d in sorted(ds, reverse=True):
        m = red.reduce(m, axis=d)
    for d in sorted(ds):
        m = np.expand_dims(m, d)
    gb = np.asarray(g, dtype=np.float64)
    if not a["keepdims"]:
        for d in sorted(ds):
            gb = np.expand_dims(gb, d)
    gb = np.broadcast_to(gb, x.shape)
    mask = x == m
    tol = 1e-12 * max(1.0, float(np.max(np.abs(gb))))
    if np.any(np.abs(grad[~mask]) > tol):
        return "gradient outside the tie set"
    tot = grad
    for d in sorted(ds, reverse=True):
        tot = np.add.reduce(tot, axis=d)
    gk = np.asarray(g, dtype=np.float64)
    if a["keepdims"]:
        gk = gk.reshape(tot.shape)
    if np.any(np.abs(tot - gk) > 1e-9 * max(1.0, float(np.max(np.abs(gk))))):
        return "weights over the tie set do not sum to 1"
    if np.any(grad * gb < -tol):
        return "negative weight on a tied element"
    return None


def run_case(ns, ctx, case):
    mon = ctx
    op = OPS[case["op"]]
    a = case["args"]
    form = case["form"]
    rng = gen.rng_for(case["seed"], "vals")
    xs = catalog.make_operands(case, rng)
    req = case["req"]
    STORAGE[0] = ["plain", "plain", "transposed", "strided", "plain", "shared-base"][case["seed"] % 6]      # Fortran-ordered / strided operand storage
    counters = {f"cases:{op.name}": 1, f"storage:{STORAGE[0]}": 1}
    viol = []
    argclass = op.argclass(a, case["shapes"])
    sigbase = f"{op.name}:{argclass}"
    try:
        ts, out = forward(ns, op, form, xs, req, a)
    except Exception as e:
        counters["forward_rejected"] = 1
        mon.drain()
        return {"counters": counters, "cover": {"rejected": [f"{op.name}:{argclass}"]}}
    outs = list(out) if isinstance(out, (tuple, list)) else [out]
    if not outs:
        return {"counters": counters}
    use = list(range(len(outs)))
    if len(outs) > 1:   # multi-output op: consume a (seeded) subset of the outputs
        k = int(rng.integers(1, len(outs) + 1))
        use = sorted(rng.choice(len(outs), k, replace=False).tolist())
    left64 = [str(o.dtype) for o in outs if o.dtype != np.float64]
    if left64:
        counters["forward_left_float64"] = 1
    if not all(outs[i].requires_grad for i in use):
        viol.append(V(sigbase + ":result-does-not-require-grad", "result of an op on operands requiring grad does not require grad"))
        return {"counters": counters, "viol": viol + mon.drain()}
    gs = {i: gen.upstream(rng, outs[i].shape, case["gclass"]) for i in use}
    if case["seed"] % 5 == 2:
        # the caller's first attempt is refused (an upstream gradient of the wrong shape): the refusal leaves nothing behind, the call that
        # follows is an ordinary first backward
        try:
            bad_shape = (2,) + tuple(outs[use[0]].shape) if outs[use[0]].shape else (3,)
            outs[use[0]].backward(ns.Tensor(np.ones(bad_shape)))
            counters["wrong_shape_seed_accepted"] = 1
            mon.drain()
            return {"counters": counters}            # (accepted: what it means is not defined - nothing further is asserted for this case)
        except Exception:
            counters["refused_backward_first"] = 1
        mon.drain()
        for t_ in ts:
            if t_._grad is not None and np.any(t_._grad != 0):
                viol.append(V(sigbase + ":refused-backward-left-a-gradient", "a backward call that was refused (wrong seed shape) left a non-zero gradient on an operand"))
                break
    try:
        for i in use:
            outs[i].backward(ns.Tensor(gs[i]))
    except Exception as e:
        import traceback
        viol.append(V(sigbase + ":backward-raises", f"forward accepted but backward raised {type(e).__name__}",
                      error=str(e)[:200], tb=traceback.format_exc()[-800:]))
        return {"counters": counters, "viol": viol + mon.drain(), "key": None}
    mode = op.mode(a)
    ninc = 0
    done = set()
    for i, r in enumerate(req):
        if not r:
            continue
        if a.get("alias"):
            if done:
                continue
        done.add(i)
        gt = ts[i].grad
        if gt is None:
            viol.append(V(sigbase + ":operand-without-grad", "operand requiring grad received no gradient", operand=i))
            continue
        got = np.asarray(gt.data)
        if case.get("tie"):
            why = check_tie_subgradient(xs[i], got.astype(np.float64), gs[use[0]], a, op.name) if got.shape == xs[i].shape else "shape"
            counters["subgradient_judgements"] = counters.get("subgradient_judgements", 0) + 1
            if why:
                viol.append(V(sigbase + ":invalid-subgradient", "gradient at a tie is not a valid subgradient: " + why,
                              x=xs[i].tolist(), grad=got.tolist()))
            continue

        def phi(xv, i=i):
            xs2 = list(xs)
            if a.get("alias"):
                xs2 = [xv for _ in xs]
            else:
                xs2[i] = xv
            _, o2 = forward(ns, op, form, xs2, [False] * len(xs), a)
            o2 = list(o2) if isinstance(o2, (tuple, list)) else [o2]
            s = 0.0
            for j in use:
                s += float(np.sum(np.asarray(o2[j].data, dtype=np.float64) * gs[j]))
            return s
        want, ok, scale = fd.fd_grad(phi, xs[i], mode)
        nbad, nchk, nin, worst, first = fd.compare(got, want, ok, mode, scale)
        counters["fd_coords_checked"] = counters.get("fd_coords_checked", 0) + nchk
        counters[f"fd_checked:{op.name}"] = counters.get(f"fd_checked:{op.name}", 0) + nchk
        counters[f"fd_inconclusive:{op.name}"] = counters.get(f"fd_inconclusive:{op.name}", 0) + nin
        ninc += nin
        if first == "shape":
            viol.append(V(sigbase + ":grad-shape", "gradient has a different shape than the operand",
                          got=list(got.shape), want=list(xs[i].shape)))
        elif nbad:
            if left64:
                # forward is not float64: FD noise would be mistaken for a wrong gradient -> C10's business, inconclusive here
                ninc += nbad
                counters[f"fd_inconclusive:{op.name}"] += nbad
            else:
                viol.append(V(sigbase + ":wrong-gradient", f"operand gradient differs from the finite-difference VJP (worst rel {worst:.3g})",
                              operand=i, index=first, got=got.tolist() if got.size <= 64 else None,
                              want=np.where(np.isnan(want), None, want).tolist() if want.size <= 64 else None))
    if not viol and not case.get("tie"):
        first = [None if (not r or ts[i].grad is None) else np.array(ts[i].grad.data, dtype=np.float64) for i, r in enumerate(req)]
        try:
            for i in use:
                outs[i].backward(ns.Tensor(gs[i]))
            counters["second_backward_checks"] = 1
            for i, f_ in enumerate(first):
                if f_ is not None and not np.allclose(np.asarray(ts[i].grad.data, dtype=np.float64), 2 * f_, rtol=1e-9, atol=1e-9 * max(1.0, float(np.max(np.abs(f_))) if f_.size else 1.0)):
                    viol.append(V(sigbase + ":second-backward-not-double", "after a second backward over the same op an operand gradient is not twice the first", operand=i))
                    break
        except Exception as e:
            viol.append(V(sigbase + ":second-backward-raises", f"a second backward over the same op raised {type(e).__name__}", error=str(e)[:200]))
    mviol = []
    for v in mon.drain():
        if v["sig"].startswith("grad-dtype:") or v["sig"].startswith("release:"):
            counters["routed_to_other_property:" + v["sig"].split(":")[0]] = counters.get("routed_to_other_property:" + v["sig"].split(":")[0], 0) + 1
        else:
            mviol.append(v)
    nontrivial = ((max(o.data.size for o in outs) > 1 or op.name in ("sum", "mean", "max", "min")) and case["gclass"] != "ones"
                  and not is_identity_args(op.name, a, case["shapes"]))
    key = (op.name, form, argclass, catalog.shape_class(case["shapes"]), json.dumps(case["vclass"]), case["gclass"], json.dumps(req),
           bool(case.get("tie"))) if nontrivial else None
    return {"key": key, "viol": viol + mviol, "counters": counters, "inconclusive": ninc,
            "cover": {"ops": [op.name], "forms": [f"{op.name}.{form}"], "argclasses": [sigbase], "gclasses": [case["gclass"]],
                      "vclasses": [json.dumps(case["vclass"])], "fd_modes": [mode]}}


def setup(ns, tier, seed):
    mon = monitors.Monitors(ns)
    mon.install_kernel_sanitizer()
    mon.install_backward_trace()
    return mon


def teardown(ns, mon):
    return {"counters": mon.take_counters(), "viol": [dict(v, case=None) for v in mon.drain()]}


def finish(agg, tier):
    r = []
    c = agg["counters"]
    if not c.get("fd_coords_checked"):
        r.append("zero-events:fd")
    if not c.get("backward_sweeps") or not c.get("grad_fn_invocations"):
        r.append("zero-events:backward-trace")
    for k, v in c.items():
        if k.startswith("fd_inconclusive:"):
            opn = k.split(":", 1)[1]
            tot = v + c.get(f"fd_checked:{opn}", 0)
            if tot and v / tot > 0.05:
                r.append(f"too-many-inconclusive:{opn}:{v}/{tot}")
    return r
