"""C09 — the stability-critical ops stay finite and accurate for |x| <= 1e4 (closed-form float64 references, mpmath cross-check)."""
import json
import numpy as np
from harness import gen, monitors
from harness.ref import nnref as R

PID = "C09"
RULE = ("ops {sigmoid, tanh, selu, softmax, log_softmax (every dim, ranks 1-3), cross_entropy (+Loss, reductions), bce_with_logits (+Loss, "
        "reductions)} x dtype {float32,float64} x input class: magnitude sweep {0, tiny, +-1, +-20, +-88, +-89, +-100, +-710, +-1e3, +-1e4} and "
        "random rows with spread 0..2e4 (probabilities underflowing), any labels / soft and hard targets, random upstream gradient; oracle = "
        "stable closed-form float64 value and gradient (validated against mpmath at 50 digits on a sub-sample each run); tolerance 1e-5*max(1,"
        "max|x|) + 1e-5*|exact| and finiteness; distinct key = (op, form, dtype, input class, args); non-trivial = max|x| >= 20")
RULE += (' Added after the seeded rounds: the gradient with respect to learnable soft targets of BCE-with-logits.')
RULE += (" Round 6 / reach monitor: every fourth case under NumPy's own error settings after legal overflowing calls, with NumPy's process-wide error state compared before / after; operands stored as transposed / strided views; the result tensor unchanged by backward.")
ASSUMPTIONS = ["single-precision accuracy relative to the input magnitude is read as |err| <= 1e-5*max(1,max|x|) + 1e-5*|exact|, for both dtypes",
               "float32 cases: the exact result is computed in float64 from the float32-rounded inputs",
               "RuntimeWarnings (overflow in exp with a correct finite final result) are ignored"]
SHARD_TIMEOUT = {"quick": 900, "thorough": 3600}
SWEEP = [0.0, 1e-6, 1.0, -1.0, 20.0, -20.0, 88.0, -88.0, 89.0, -89.0, 100.0, -100.0, 710.0, -710.0, 1e3, -1e3, 1e4, -1e4]
OPS = ["sigmoid", "tanh", "selu", "softmax", "log_softmax", "cross_entropy", "bce_with_logits"]


def gen_cases(tier, seed):
    rng = gen.rng_for(seed, "c09", tier)
    cases = []
    reps = 12 if tier == "quick" else 200
    for op in OPS:
        for dt in ("float32", "float64"):
            forms = ["functional", "module"]
            for form in forms:
                for rep in range(reps):
                    for icl in ("sweep", "spread", "uniform_big", "moderate", "band") + (("tied-max",) if op in ("softmax", "log_softmax", "cross_entropy") else ()):
                        c = {"op": op, "dtype": dt, "form": form, "icl": icl, "seed": int(rng.integers(2 ** 31))}
                        if op in ("softmax", "log_softmax"):
                            shp = [[6], [3, 5], [2, 3, 4]][rep % 3]
                            c["shape"] = shp
                            c["dim"] = int(rng.integers(-len(shp), len(shp)))
                        elif op == "cross_entropy":
                            c["shape"] = [int(rng.integers(1, 5)), int(rng.integers(2, 7))]
                            c["reduction"] = ["mean", "sum", "none"][rep % 3]
                        elif op == "bce_with_logits":
                            c["shape"] = [[6], [3, 4]][rep % 2]
                            c["reduction"] = ["mean", "sum", "none"][rep % 3]
                            c["tclass"] = ["prob", "hard01"][rep % 2]
                        else:
                            c["shape"] = [[len(SWEEP)], [3, 6], []][rep % 3]           # also 0-d tensors (a scalar fast path must be as stable as the array path)
                        cases.append(c)
    cases.append({"op": "mpmath", "seed": int(rng.integers(2 ** 31)), "n": 20 if tier == "quick" else 200})
    return cases


def op_of(c):
    return c["op"]


def inputs(rng, c):
    shp = tuple(c["shape"])
    n = int(np.prod(shp))
    icl = c["icl"]
    if icl == "sweep":
        v = np.array([SWEEP[(i + int(rng.integers(len(SWEEP)))) % len(SWEEP)] for i in range(n)]).reshape(shp)
    elif icl == "spread":
        spread = float(rng.choice([0.0, 1.0, 30.0, 200.0, 2e3, 2e4]))
        v = rng.uniform(-0.5, 0.5, shp) * spread
        v = v + float(rng.uniform(-1, 1)) * (1e4 - spread / 2)
    elif icl == "uniform_big":
        v = rng.uniform(-1e4, 1e4, shp)
    elif icl == "tied-max":
        # the largest logit of a row occurs several times exactly (saturated or quantised outputs, a constant row), at any level
        v = rng.uniform(-1.0, 1.0, shp) * float(rng.choice([1.0, 30.0, 2e3]))
        if v.ndim >= 1 and v.size:
            ax = (c.get("dim", -1) if op_of(c) != "cross_entropy" else 1) % v.ndim
            mx_ = v.max(axis=ax, keepdims=True) + float(rng.choice([0.0, 50.0, 5e3]))
            pick = rng.random(v.shape) < 0.4
            v = np.where(pick, mx_, v)
            if rng.random() < 0.3:
                v = np.broadcast_to(mx_, v.shape).copy()           # constant along the axis
    elif icl == "band":
        # every element inside (-700, 700) - finite for float64 exp - but far beyond the float32 limit 88.7: magnitudes 150, 400, 650
        v = rng.uniform(-1.0, 1.0, shp) * float([150.0, 400.0, 650.0][int(rng.integers(3))])
        if v.size:
            v.flat[int(rng.integers(v.size))] = 0.97 * float(np.max(np.abs(v))) if v.size else 0.0
    else:
        v = rng.uniform(-8, 8, shp)
    return np.clip(v, -1e4, 1e4)


def exact(op, x, c, g, extra):
    """-> (value, grad wrt x) in float64 from stable closed forms"""
    if op == "sigmoid":
        s, sm = R.sigmoid(x), R.sigmoid(-x)
        return s, g * s * sm
    if op == "tanh":
        e = np.exp(-2 * np.abs(x))
        return np.tanh(x), g * 4 * e / (1 + e) ** 2
    if op == "selu":
        return R.selu(x), g * R.SELU_SCALE * np.where(x > 0, 1.0, R.SELU_ALPHA * np.exp(np.minimum(x, 0)))
    if op == "log_softmax":
        ls = R.log_softmax(x, c["dim"])
        return ls, g - np.exp(ls) * np.sum(g, axis=c["dim"], keepdims=True)
    if op == "softmax":
        y = R.softmax(x, c["dim"])
        return y, y * (g - np.sum(g * y, axis=c["dim"], keepdims=True))
    if op == "cross_entropy":
        t = extra
        ls = R.log_softmax(x, 1)
        l = -ls[np.arange(len(t)), t]
        oh = np.zeros_like(x); oh[np.arange(len(t)), t] = 1.0
        per = (np.exp(ls) - oh)
        red = c["reduction"] if c["form"] == "module" else "none"
        if red == "mean":
            return np.mean(l), per * (g / len(t))
        if red == "sum":
            return np.sum(l), per * g
        return l, per * np.reshape(g, (-1, 1))
    if op == "bce_with_logits":
        t = extra
        l = np.maximum(x, 0) - x * t + np.log1p(np.exp(-np.abs(x)))
        per = R.sigmoid(x) - t
        red = c["reduction"] if c["form"] == "module" else "none"
        if red == "mean":
            return np.mean(l), per * (g / x.size)
        if red == "sum":
            return np.sum(l), per * g
        return l, per * g
    raise KeyError(op)


def call(ns, op, c, xt, extra_t):
    sg, nn = ns.sg, ns.nn
    if op in ("sigmoid", "tanh", "selu"):
        return getattr(sg, op)(xt) if c["form"] == "functional" else {"sigmoid": nn.Sigmoid, "tanh": nn.Tanh, "selu": nn.SELU}[op]()(xt)
    if op in ("softmax", "log_softmax"):
        return getattr(sg, op)(xt, c["dim"]) if c["form"] == "functional" else {"softmax": nn.Softmax, "log_softmax": nn.LogSoftmax}[op](c["dim"])(xt)
    if op == "cross_entropy":
        return sg.cross_entropy(xt, extra_t) if c["form"] == "functional" else nn.CrossEntropyLoss(reduction=c["reduction"])(xt, extra_t)
    if op == "bce_with_logits":
        return sg.binary_cross_entropy_with_logits(xt, extra_t) if c["form"] == "functional" else nn.BCEWithLogitsLoss(reduction=c["reduction"])(xt, extra_t)


def V(sig, what, **detail):
    return {"sig": sig, "what": what, "detail": detail}


def mp_crosscheck(c):
    import mpmath as mp
    mp.mp.dps = 50
    rng = gen.rng_for(c["seed"], "mp")
    bad = []
    n = 0
    for k in range(c["n"]):
        x = float(rng.choice(SWEEP)) + float(rng.uniform(-0.5, 0.5))
        t = float(rng.uniform(0, 1))
        n += 1
        s = float(1 / (1 + mp.e ** (-mp.mpf(x))))
        if abs(float(R.sigmoid(np.array(x))) - s) > 1e-14 * max(1e-300, abs(s)) + 1e-300:
            bad.append(("sigmoid", x))
        l = float(mp.log(1 + mp.e ** (mp.mpf(x))) - mp.mpf(x) * mp.mpf(t))
        mine = float(np.maximum(x, 0) - x * t + np.log1p(np.exp(-abs(x))))
        if abs(mine - l) > 1e-12 * max(1.0, abs(l)):
            bad.append(("bce_logits", x, t))
        row = rng.uniform(-0.5, 0.5, 4) * float(rng.choice([1.0, 200.0, 2e4]))
        lse = mp.log(sum(mp.e ** mp.mpf(float(v)) for v in row))
        ls = np.array([float(mp.mpf(float(v)) - lse) for v in row])
        if np.max(np.abs(R.log_softmax(row, 0) - ls)) > 1e-11 * max(1.0, float(np.max(np.abs(row)))):
            bad.append(("log_softmax", row.tolist()))
        sel = float(R.selu(np.array(x)))
        sel_mp = float(mp.mpf(R.SELU_SCALE) * (mp.mpf(x) if x > 0 else mp.mpf(R.SELU_ALPHA) * (mp.e ** mp.mpf(x) - 1)))
        if abs(sel - sel_mp) > 1e-13 * max(1.0, abs(sel_mp)):
            bad.append(("selu", x))
        if abs(float(np.tanh(x)) - float(mp.tanh(mp.mpf(x)))) > 1e-14:
            bad.append(("tanh", x))
    return n, bad


def run_case(ns, mon, c):
    if c["op"] == "mpmath":
        n, bad = mp_crosscheck(c)
        if bad:
            # the *reference* is wrong: that is a harness problem, never a violation of the library
            raise AssertionError(f"closed-form references disagree with mpmath: {bad[:3]}")
        return {"counters": {"mpmath_crosschecks": n}, "keys": [("mpmath", i) for i in range(min(n, 2))], "evals": n}
    op = c["op"]
    rng = gen.rng_for(c["seed"], "x")
    dt = np.dtype(c["dtype"])
    x = inputs(rng, c).astype(dt)
    x64 = x.astype(np.float64)
    extra = extra_t = None
    if op == "cross_entropy":
        extra = rng.integers(0, x.shape[1], x.shape[0])
        extra_t = ns.Tensor(np.asarray(extra, dtype=[np.int64, np.int32][int(rng.integers(2))]))
    if op == "bce_with_logits":
        extra = (rng.uniform(0, 1, x.shape) if c["tclass"] == "prob" else rng.integers(0, 2, x.shape).astype(np.float64)).astype(dt)
        if c["tclass"] == "hard01" and c["seed"] % 3 == 2:
            # hard labels as they come out of a data pipeline: a mask / label array of a small integer type or bool
            idt = ["uint8", "bool", "int8", "int16", "int64", "uint16"][(c["seed"] // 3) % 6]
            extra_t = ns.Tensor(extra.astype(idt))
            counters_idt = idt
        else:
            extra_t = ns.Tensor(extra.copy(), requires_grad=bool(c["seed"] % 2))       # soft targets may be learnable: their gradient is -x * upstream
        extra = extra.astype(np.float64)
    sig = f"{op}.{c['form']}"
    if c["seed"] % 3 == 0:
        # the same op was used a moment ago in the other dtype (limits or tables cached at first use must not leak into this call)
        other = np.dtype("float32") if dt == np.float64 else np.dtype("float64")
        try:
            with np.errstate(all="ignore"):
                call(ns, op, c, ns.Tensor((x64 * 0.5).astype(other)), None if extra_t is None else ns.Tensor(np.asarray(extra_t.data).astype(other) if extra_t.data.dtype.kind == "f" else extra_t.data.copy()))
        except Exception:
            pass
    # the operand as a view (the op is applied directly to x.T / a strided slice, as in model code): same values, other memory layout
    storage = ["plain", "transposed", "plain", "strided"][c["seed"] % 4] if x.ndim >= 2 else "plain"
    xt = ns.Tensor(gen.as_storage(x, storage, None, {}), requires_grad=True)
    viol = []
    counters = {f"cases:{op}": 1, f"storage:{storage}": 1}
    # One case in four runs the way user code does: under NumPy's own error settings (the harness's errstate("ignore") would hide an op that only
    # works when overflow is silent), after a few legal calls that overflow / divide by zero.  NumPy's error state is process-wide: a library
    # call that leaves it changed breaks every later op that relies on inf arithmetic.
    user_env = c["seed"] % 4 == 1
    err0 = np.geterr()
    if user_env:
        import warnings
        counters["user_environment_cases"] = 1
        with warnings.catch_warnings():
            warnings.simplefilter("ignore")
            for pre in (lambda: ns.Tensor(np.array([1e4, 800.0], dtype=dt)).exp(), lambda: ns.Tensor(np.array([0.0, 1.0], dtype=dt)).log(),
                        lambda: 1.0 / ns.Tensor(np.array([0.0, 2.0], dtype=dt)), lambda: ns.Tensor(np.array([1e300 if dt == np.float64 else 1e30], dtype=dt)) ** 3,
                        lambda: ns.Tensor(np.array([1e4], dtype=dt), requires_grad=True).exp().sum().backward()):
                try:
                    pre()
                except Exception:
                    counters["prelude_calls_refused"] = counters.get("prelude_calls_refused", 0) + 1
        if np.geterr() != err0:
            viol.append(V("environment:numpy-error-state-changed", f"a library call left NumPy's process-wide error handling changed: {err0} -> {np.geterr()}"))
    import contextlib, warnings as _w
    ctx_ = contextlib.ExitStack()
    if user_env:
        cw = _w.catch_warnings(); ctx_.enter_context(cw); _w.simplefilter("ignore")
    else:
        ctx_.enter_context(np.errstate(all="ignore"))
    with ctx_:
        try:
            out = call(ns, op, c, xt, extra_t)
        except Exception as e:
            np.seterr(**err0)
            return {"viol": viol + [V(sig + ":forward-raises" + (":after-overflowing-calls" if user_env else ""), f"forward raised {type(e).__name__} on finite inputs with |x|<=1e4", error=str(e)[:200])] + mon.drain(),
                    "counters": counters}
        g = rng.standard_normal(out.shape) if out.shape else np.array(float(rng.uniform(0.5, 2)))
        out_before = np.array(out.data, copy=True)
        if c["seed"] % 2 == 0:
            # the op is used again on another input of the same shape and dtype while this result is still alive (two heads, the next batch)
            try:
                call(ns, op, c, ns.Tensor((x64 * 0.5 + 1.0).astype(dt), requires_grad=True), extra_t)
                counters["second_result_alive"] = 1
            except Exception:
                pass
            if out.data.shape != out_before.shape or not np.array_equal(out.data, out_before, equal_nan=True):
                viol.append(V(sig + ":earlier-result-rewritten-by-later-call", "the result tensor changed when the op was called again on another input of the same shape"))
                out_before = np.array(out.data, copy=True)
        try:
            out.backward(ns.Tensor(np.asarray(g, dtype=dt)))
            grad = xt.grad.data
        except Exception as e:
            viol.append(V(sig + ":backward-raises" + (":after-overflowing-calls" if user_env else ""), f"backward raised {type(e).__name__}", error=str(e)[:200]))
            grad = None
        if grad is not None and (out.data.shape != out_before.shape or not np.array_equal(out.data, out_before, equal_nan=True)):
            viol.append(V(sig + ":value-changed-by-backward", "the result tensor no longer holds the value the forward returned after backward() ran"))
    if np.geterr() != err0:
        if not any(v["sig"].startswith("environment:") for v in viol):
            viol.append(V("environment:numpy-error-state-changed", f"a library call left NumPy's process-wide error handling changed: {err0} -> {np.geterr()}"))
        np.seterr(**err0)
    g64 = np.asarray(g, dtype=dt).astype(np.float64)
    with np.errstate(all="ignore"):
        val, gr = exact(op, x64, c, g64, extra)
    mx = max(1.0, float(np.max(np.abs(x64))))
    magc = "huge" if mx >= 700 else ("large" if mx >= 20 else "moderate")

    def judge(kind, got, want, gscale=1.0):
        got = np.asarray(got, dtype=np.float64)
        if got.shape != np.shape(want):
            viol.append(V(f"{sig}:{kind}:shape", f"{kind} shape {list(got.shape)} != {list(np.shape(want))}")); return
        counters[f"{kind}_elements_judged"] = counters.get(f"{kind}_elements_judged", 0) + got.size
        if not np.all(np.isfinite(got)):
            viol.append(V(f"{sig}:{kind}:non-finite", f"non-finite {kind} for finite inputs with |x| <= 1e4",
                          x=x64.tolist() if x64.size <= 24 else None, got=got.tolist() if got.size <= 24 else None, dtype=str(dt), magnitude=magc))
            return
        tol = 1e-5 * mx * gscale + 1e-5 * np.abs(want)
        bad = np.abs(got - want) > tol
        if bad.any():
            i = tuple(int(v) for v in np.argwhere(bad)[0])
            viol.append(V(f"{sig}:{kind}:inaccurate", f"{kind} deviates from the exact result beyond single precision: got {got[i]!r}, exact {np.asarray(want)[i]!r}",
                          x=x64.tolist() if x64.size <= 24 else None, dtype=str(dt), magnitude=magc))
    judge("value", out.data, val)
    if grad is not None:
        judge("gradient", grad, gr, gscale=max(1.0, float(np.max(np.abs(g64)))))
        if op == "bce_with_logits" and extra_t.data.dtype.kind != "f":
            counters["integer_or_bool_targets"] = 1
        if op == "bce_with_logits" and extra_t.requires_grad:
            red = c["reduction"] if c["form"] == "module" else "none"
            gt_want = -x64 * (g64 / x64.size if red == "mean" else g64)
            if extra_t.grad is None:
                viol.append(V(f"{sig}:target-gradient:missing", "a target that requires grad received no gradient"))
            else:
                judge("target-gradient", extra_t.grad.data, gt_want, gscale=max(1.0, float(np.max(np.abs(g64)))))
    args = {k: c[k] for k in ("dim", "reduction", "tclass") if k in c}
    key = (op, c["form"], c["dtype"], c["icl"], magc, json.dumps(args, sort_keys=True), len(c["shape"])) if mx >= 20 else None
    return {"key": key, "viol": viol + [v for v in mon.drain() if not v["sig"].startswith(("grad-dtype", "release"))], "counters": counters,
            "cover": {"ops": [sig], "magnitudes": [magc], "input_classes": [c["icl"]], "dtypes": [c["dtype"]]}}


def setup(ns, tier, seed):
    mon = monitors.Monitors(ns)
    mon.install_backward_trace()
    return mon


def teardown(ns, mon):
    return {"counters": mon.take_counters()}


def finish(agg, tier):
    c = agg["counters"]
    return [f"zero-events:{k}" for k in ("value_elements_judged", "gradient_elements_judged", "mpmath_crosschecks", "user_environment_cases") if not c.get(k)]
