"""C12 — module trees: parameters() once each in registration order, mode propagation, zero_grad/freeze reach, re-registration."""
import json
from collections import OrderedDict
import numpy as np
from harness import gen

PID = "C12"
RULE = ("random construction programs: attribute assignment, register_module / register_parameter, Sequential (positional and OrderedDict, "
        "incl. empty), nesting depth <= 5, modules and parameters shared between parents / under two names, attributes re-assigned to another "
        "module / parameter / None / plain value; then random train / eval / freeze / unfreeze / zero_grad calls on any node with every reachable "
        "node observed after each; Sequential forward order observed with tagging modules. Oracle: plain-Python registry-tree model. distinct key "
        "= canonical tree shape + action kinds; non-trivial = depth >= 2 and (a shared object or a re-assignment or >= 3 modules)")
RULE += (' Added after the seeded rounds: the tree is observed in the middle of its construction and changed again; existing names (also positional Sequential keys) re-used; containers with more than ten positions; integer parameters; wrong-kind registrations that the library refuses (the tree is what it was); every action also issued under no_grad.')
RULE += (" Round 6 / reach monitor: two distinct parameters over one array / made from one source tensor.")
ASSUMPTIONS = ["registration order after re-assigning a name to an object of the same kind may keep the original slot or move to the end (both are "
               "'registration order'); order is asserted only among entries that were never re-assigned",
               "a parameter or module reachable along several paths is reported at its first occurrence in depth-first registration order"]
SHARD_TIMEOUT = {"quick": 900, "thorough": 3600}


def gen_cases(tier, seed):
    rng = gen.rng_for(seed, "c12", tier)
    n = 5000 if tier == "quick" else 60000
    return [{"seed": int(rng.integers(2 ** 31)), "n_build": int(rng.integers(3, 22)), "n_act": int(rng.integers(2, 12))} for _ in range(n)]


def V(sig, what, **detail):
    return {"sig": sig, "what": what, "detail": detail}


class MNode:
    """model of one module: ordered registry name -> ('P'|'M', object id)"""

    def __init__(self, mid, kind):
        self.mid, self.kind = mid, kind
        self.reg = OrderedDict()
        self.training = True
        self.touched = set()


def run_case(ns, ctx, case):
    nn, T = ns.nn, ns.Tensor
    rng = gen.rng_for(case["seed"], "c12")
    viol, counters = [], {"trees": 1}
    log = []

    class Box(nn.Module):
        def forward(self, x):
            return x

    class Tag(nn.Module):
        def __init__(self, k):
            super().__init__()
            self.k = k

        def forward(self, x):
            log.append(self.k)
            return x

    mods, model = {}, {}            # id -> real module / model node
    params, pmodel = {}, {}         # id -> real Parameter / {"req":bool,"grad":None|'zero'|'ones'}
    sources = {}                    # id -> the tensor object a parameter was made from
    trail = []
    features = set()

    def new_param():
        pid = len(params)
        shp = [(2,), (2, 3), (), (1,), (3, 1, 2)][int(rng.integers(5))]
        if rng.random() < 0.08:
            # an integer-valued parameter (index table, class ids): it can never require grad, but it is registered, counted and frozen like any other
            params[pid] = nn.Parameter(T(rng.integers(0, 5, shp if shp else (1,)).astype(np.int64)))
            pmodel[pid] = {"req": False, "grad": None, "size": int(np.prod(shp)) if shp else 1, "int": True}
            features.add("integer-parameter")
            return pid
        r_ = rng.random()
        donors = [q for q in params if not pmodel[q].get("int")]
        if r_ < 0.12 and donors:
            # tied storage: a second, distinct Parameter over the very array an earlier parameter holds (two parameters, one buffer), or a
            # second Parameter made from the same source tensor object - each is a parameter of its own (own flag, own gradient)
            q = donors[int(rng.integers(len(donors)))]
            if r_ < 0.06 and q in sources:
                params[pid] = nn.Parameter(sources[q])
                features.add("two-parameters-from-one-source-tensor")
            else:
                params[pid] = nn.Parameter(T(params[q].data, requires_grad=True))
                features.add("two-parameters-over-one-array")
            pmodel[pid] = {"req": True, "grad": None, "size": pmodel[q]["size"]}
            return pid
        src_ = T(rng.standard_normal(shp).astype(np.float32), requires_grad=True)
        sources[pid] = src_
        params[pid] = nn.Parameter(src_)
        pmodel[pid] = {"req": True, "grad": None, "size": int(np.prod(shp)) if shp else 1}
        return pid

    def new_module(kind="box"):
        mid = len(mods)
        if kind == "box":
            mods[mid] = Box()
        elif kind == "tag":
            mods[mid] = Tag(mid)
        model[mid] = MNode(mid, kind)
        return mid

    def new_sequential(children, named):
        mid = len(mods)
        if named:
            od = OrderedDict((f"n{c}_{i}", mods[c]) for i, c in enumerate(children))
            mods[mid] = nn.Sequential(od)
            names = list(od.keys())
            if rng.random() < 0.3:
                # the caller goes on using its dict: a twin container is built from the very same dict and then edited, and the dict itself is
                # changed afterwards - the first container is what it was given at construction
                twin = nn.Sequential(od)
                if names:
                    setattr(twin, names[0], Box())
                    twin.register_module(names[-1], Box())
                od["late_entry"] = Box()
                if names:
                    od.pop(names[0], None)
                    od.move_to_end(names[-1], last=False) if names[-1] in od else None
                features.add("ordered-dict-reused-by-caller")
            else:
                twin_single = None
        else:
            mods[mid] = nn.Sequential(*[mods[c] for c in children])
            names = [str(i) for i in range(len(children))]
        model[mid] = MNode(mid, "seq")
        for nm, c in zip(names, children):
            model[mid].reg[nm] = ("M", c)
        return mid

    def assign(mid, name, kind, oid, via):
        node = model[mid]
        if name in node.reg:
            node.touched.add(name)
            features.add("reassign-" + ("same-kind" if node.reg[name][0] == kind else "cross-kind"))
            if node.reg[name][0] == kind:
                node.reg[name] = (kind, oid)
            else:
                del node.reg[name]
                node.reg[name] = (kind, oid)
        else:
            node.reg[name] = (kind, oid)
        obj = mods[oid] if kind == "M" else params[oid]
        if via == "setattr":
            setattr(mods[mid], name, obj)
        elif kind == "M":
            mods[mid].register_module(name, obj)
        else:
            mods[mid].register_parameter(name, obj)
        trail.append(f"m{mid}.{name} = {kind}{oid} ({via})")

    def unassign(mid, name, value):
        node = model[mid]
        if name in node.reg:
            # (removing a registration is unambiguous - unlike re-assigning a live one, it does not relax the order comparison: a name that is
            #  registered again later is a new registration and comes last)
            features.add("reassign-to-plain")
            del node.reg[name]
        setattr(mods[mid], name, value)
        trail.append(f"m{mid}.{name} = {value!r}")

    def reach(mid, seen=None):
        """modules reachable from mid in depth-first registration order (each once)"""
        seen = seen if seen is not None else []
        if mid in seen:
            return seen
        seen.append(mid)
        for nm, (k, o) in model[mid].reg.items():
            if k == "M":
                reach(o, seen)
        return seen

    def exp_params(mid):
        out = []

        def rec(m):
            for nm, (k, o) in model[m].reg.items():
                if k == "P":
                    out.append((o, nm in model[m].touched))
            for nm, (k, o) in model[m].reg.items():
                if k == "M":
                    rec(o)
        rec(mid)
        seen, uniq = set(), []
        for o, t in out:
            if o not in seen:
                seen.add(o); uniq.append((o, t))
        return uniq

    def has_cycle_to(target, start):
        return target in reach(start)

    root = new_module()
    # ---------------- build (in two phases: the tree is observed in between, then changed again)
    phase_break = int(rng.integers(1, max(2, case["n_build"])))

    accepted_wrong_kind = []

    def build_steps(lo, hi):
      for step_ in range(lo, hi):
          if accepted_wrong_kind:
              return                      # (an implementation that accepts such objects has semantics this model does not describe: stop changing the tree)
          r = rng.random()
          host_candidates = [m for m in model if model[m].kind in ("box", "seq")]
          host = host_candidates[int(rng.integers(len(host_candidates)))]
          name = ["a", "b", "c", "w", "layer"][int(rng.integers(5))]
          if model[host].reg and rng.random() < 0.25:
              name = list(model[host].reg)[int(rng.integers(len(model[host].reg)))]       # re-use an existing name (also positional Sequential keys)
          via = "setattr" if rng.random() < 0.7 else "register"
          if r < 0.30:
              pid = new_param() if (rng.random() < 0.75 or not params) else int(rng.integers(len(params)))
              if pid < len(params) - 1:
                  features.add("shared-parameter")
              assign(host, name, "P", pid, via)
          elif r < 0.60:
              if rng.random() < 0.75 or len(mods) < 2:
                  child = new_module()
              else:
                  child = int(rng.integers(len(mods)))
                  if child == host or has_cycle_to(host, child):
                      continue
                  features.add("shared-module")
              assign(host, name, "M", child, via)
          elif r < 0.75:
              k = int(rng.integers(0, 4)) if rng.random() > 0.12 else int(rng.integers(10, 14))     # also containers with more than ten positions
              if k >= 10:
                  features.add("sequential-long")
              kids = []
              for _ in range(k):
                  if rng.random() < 0.3 and len(mods) > 1:
                      c = int(rng.integers(len(mods)))
                      if c == host or has_cycle_to(host, c) or model[c].kind == "seq":
                          c = new_module("tag")
                      else:
                          features.add("shared-module")
                  else:
                      c = new_module("tag" if rng.random() < 0.6 else "box")
                      if rng.random() < 0.5 and model[c].kind == "box":
                          assign(c, "w", "P", new_param(), "setattr")
                  kids.append(c)
              named = bool(rng.random() < 0.4)
              if len(set(kids)) < len(kids) and named:
                  named = False
              s = new_sequential(kids, named)
              features.add("sequential" + ("-empty" if k == 0 else ("-named" if named else "")))
              trail.append(f"m{s} = Sequential({kids}, named={named})")
              if rng.random() < 0.2:
                  # a container whose only entry is another container (a backbone wrapped once more): the inner one is a submodule like any other -
                  # mode changes reach it, what is added to it later is seen through the outer one
                  inner_ = s
                  s = new_sequential([inner_], False)
                  features.add("sequential-of-one-sequential")
                  trail.append(f"m{s} = Sequential(m{inner_})")
              assign(host, name, "M", s, via)
          elif r < 0.82:
              # a registration the library refuses (wrong kind of object) is a no-op: the tree is exactly what it was
              if model[host].reg:
                  nm = list(model[host].reg)[int(rng.integers(len(model[host].reg)))]
                  try:
                      if model[host].reg[nm][0] == "M":
                          mods[host].register_parameter(nm, T(np.ones(2, dtype=np.float32)))
                      else:
                          mods[host].register_module(nm, 3.5)
                      counters["wrong_kind_registration_accepted"] = counters.get("wrong_kind_registration_accepted", 0) + 1
                      accepted_wrong_kind.append(nm)
                  except Exception:
                      counters["rejected_registrations"] = counters.get("rejected_registrations", 0) + 1
                      features.add("rejected-registration")
                      trail.append(f"m{host}: registration of a wrong-kind object under '{nm}' was refused")
          elif r < 0.90:
              if model[host].reg:
                  nm = list(model[host].reg)[int(rng.integers(len(model[host].reg)))]
                  unassign(host, nm, [None, 3.5, "text"][int(rng.integers(3))])
          else:
              unassign(host, name, None)


    depth = 0

    def dep(m, d, seen):
        nonlocal depth
        depth = max(depth, d)
        for nm, (k, o) in model[m].reg.items():
            if k == "M" and o not in seen:
                dep(o, d + 1, seen | {o})

    # ---------------- observe
    def observe(after):
        return _observe(after)

    def _observe(after):
        for mid in reach(root):
            real = mods[mid]
            counters["observations"] = counters.get("observations", 0) + 1
            try:
                got = real.parameters()
            except Exception as e:
                viol.append(V("parameters:raises", f"parameters() raised {type(e).__name__}", trail=trail, after=after)); return
            exp = exp_params(mid)
            # the lists handed out are the caller's: emptying or extending them changes nothing in the module
            if isinstance(got, list) and counters.get("observations", 0) % 3 == 0:
                kept_ = list(got)
                got.clear(); got.append("junk")
                try:
                    subs_ = real.submodules()
                    if isinstance(subs_, list):
                        subs_keep_ = list(subs_); subs_.clear()
                        again_s = real.submodules()
                        if len(again_s) != len(subs_keep_) or any(a_ is not b_ for a_, b_ in zip(again_s, subs_keep_)):
                            viol.append(V("submodules:returned-list-aliases-registry", "emptying the list returned by submodules() changed what the module reports", trail=trail)); return
                    again = real.parameters()
                except Exception as e:
                    viol.append(V("parameters:raises", f"parameters() raised {type(e).__name__} after the caller modified an earlier result", trail=trail)); return
                counters["returned_list_alias_checks"] = counters.get("returned_list_alias_checks", 0) + 1
                if len(again) != len(kept_) or any(a_ is not b_ for a_, b_ in zip(again, kept_)):
                    viol.append(V("parameters:returned-list-aliases-registry", "modifying the list returned by parameters() changed what the module reports", trail=trail)); return
                got = again
            got_ids = []
            for p in got:
                match = [pid for pid, q in params.items() if q is p]
                got_ids.append(match[0] if match else -1)
            exp_ids = [o for o, _ in exp]
            if sorted(got_ids) != sorted(exp_ids):
                kind = "duplicates" if len(got_ids) != len(set(got_ids)) else ("stale-or-missing" if set(got_ids) != set(exp_ids) else "multiplicity")
                viol.append(V(f"parameters:wrong-set:{kind}", f"parameters() of m{mid} returned {got_ids}, expected each of {exp_ids} exactly once",
                              trail=trail, after=after, features=sorted(features)))
                return
            stable = [o for o, t in exp if not t]
            got_stable = [g for g in got_ids if g in stable]
            if got_stable != stable and not any(n_.touched for n_ in model.values()):
                viol.append(V("parameters:order", f"parameters() of m{mid} not in registration order: {got_ids} vs {exp_ids}", trail=trail, after=after))
                return
            want_sub = [o for nm, (k, o) in model[mid].reg.items() if k == "M"]
            got_sub = []
            for s_ in real.submodules():
                match = [i for i, q in mods.items() if q is s_]
                got_sub.append(match[0] if match else -1)
            if sorted(got_sub) != sorted(want_sub):
                viol.append(V("submodules:wrong-set", f"submodules() of m{mid} returned {got_sub}, expected {want_sub}", trail=trail, after=after,
                              features=sorted(features)))
                return
            if got_sub != want_sub and not model[mid].touched:
                viol.append(V("submodules:order", f"submodules() of m{mid} not in registration order: {got_sub} vs {want_sub}", trail=trail)); return
            tot = sum(pmodel[o]["size"] for o in exp_ids)
            tr = sum(pmodel[o]["size"] for o in exp_ids if pmodel[o]["req"])
            try:
                nums = (real.num_params(), real.num_params(trainable=True), real.num_params(non_trainable=True))
            except Exception as e:
                viol.append(V("num_params:raises", f"num_params raised {type(e).__name__}", trail=trail)); return
            if nums != (tot, tr, tot - tr):
                viol.append(V("num_params:wrong-count", f"num_params of m{mid} = {nums}, expected {(tot, tr, tot - tr)}", trail=trail, after=after,
                              features=sorted(features)))
                return
            if bool(real.training) != model[mid].training:
                viol.append(V("mode:training-flag", f"m{mid}.training={real.training}, expected {model[mid].training} after {after}", trail=trail)); return
        for pid, p in params.items():
            pm = pmodel[pid]
            if bool(p.requires_grad) != pm["req"]:
                viol.append(V("freeze:requires_grad", f"parameter P{pid}.requires_grad={p.requires_grad}, expected {pm['req']} after {after}", trail=trail)); return
            g = p._grad
            state = None if g is None else ("zero" if not np.any(g) else "ones")
            if state != pm["grad"] and not (pm["grad"] == "zero" and state is None):      # a cleared gradient may be zeros or absent
                viol.append(V("zero_grad:reach", f"parameter P{pid} gradient state {state}, expected {pm['grad']} after {after}", trail=trail)); return

    build_steps(0, phase_break)
    observe("mid-construction")
    build_steps(phase_break, case["n_build"])
    features.add("structure-changed-after-observation")
    dep(root, 0, {root})
    observe("construction")
    # ---------------- actions
    acts = []
    for _ in range(case["n_act"]):
        if viol:
            break
        nodes = reach(root)
        # also act on nodes that are no longer reachable from the root? only reachable ones are specified
        mid = nodes[int(rng.integers(len(nodes)))]
        a = ["train", "eval", "freeze", "unfreeze", "zero_grad", "give_grads"][int(rng.integers(6))]
        sub = reach(mid)
        ps = [o for o, _ in exp_params(mid)]
        if a == "unfreeze" and any(pmodel[o].get("int") for o in ps):
            a = "freeze"                   # (switching requires_grad on is refused for an integer parameter, as in PyTorch; not part of the histories)
        acts.append(a)
        try:
            import contextlib
            quiet = rng.random() < 0.25          # the same call issued while gradient mode is off: mode / flags / gradients are set all the same
            if quiet:
                features.add("action-under-no_grad")
            a_ctx = ns.sg.no_grad() if quiet else contextlib.nullcontext()
            a_ctx.__enter__()
            if a == "train":
                mods[mid].train()
                for s_ in sub:
                    model[s_].training = True
            elif a == "eval":
                mods[mid].eval()
                for s_ in sub:
                    model[s_].training = False
            elif a == "freeze":
                mods[mid].freeze()
                for o in ps:
                    pmodel[o]["req"] = False
            elif a == "unfreeze":
                mods[mid].unfreeze()
                for o in ps:
                    pmodel[o]["req"] = True
            elif a == "zero_grad":
                mods[mid].zero_grad()
                for o in ps:
                    if pmodel[o]["req"]:
                        pmodel[o]["grad"] = "zero"
            else:
                shared_by_shape = {}
                share = rng.random() < 0.35         # the caller hands ONE gradient tensor to every parameter of the same shape (also outside this node)
                if share:
                    features.add("shared-gradient-tensor")
                    for o_, p_ in params.items():
                        if not pmodel[o_].get("int") and o_ not in ps and rng.random() < 0.5:
                            shp_ = tuple(p_.shape)
                            shared_by_shape.setdefault(shp_, T(np.ones(shp_, dtype=np.float32)))
                            p_.grad = shared_by_shape[shp_]
                            pmodel[o_]["grad"] = "ones"
                for o in ps:
                    if pmodel[o].get("int"):
                        continue
                    shp_ = tuple(params[o].shape)
                    params[o].grad = shared_by_shape.setdefault(shp_, T(np.ones(shp_, dtype=np.float32))) if share else T(np.ones(params[o].shape, dtype=np.float32))
                    pmodel[o]["grad"] = "ones"
            a_ctx.__exit__(None, None, None)
        except Exception as e:
            try:
                a_ctx.__exit__(None, None, None)
            except Exception:
                pass
            import traceback
            viol.append(V(f"action:{a}:raises", f"{a}() raised {type(e).__name__}", trail=trail, tb=traceback.format_exc()[-400:]))
            break
        trail.append(f"m{mid}.{a}()" + (" under no_grad" if quiet else ""))
        observe(f"m{mid}.{a}()" + (" under no_grad" if quiet else ""))
    # ---------------- Sequential forward order
    for mid in reach(root):
        if model[mid].kind == "seq" and not viol:
            del log[:]
            x = T(np.ones((1, 2), dtype=np.float32))
            counters["sequential_forwards"] = counters.get("sequential_forwards", 0) + 1
            try:
                y = mods[mid](x)
            except Exception as e:
                n_kids = sum(1 for k, o in model[mid].reg.values() if k == "M")
                viol.append(V("sequential:forward-raises" + (":empty" if n_kids == 0 else ""), f"Sequential forward raised {type(e).__name__}", trail=trail))
                continue
            want = []

            def tags(m):
                if model[m].kind == "tag":
                    want.append(m)
                elif model[m].kind == "seq":
                    for nm, (k, o) in model[m].reg.items():
                        if k == "M":
                            tags(o)
            tags(mid)
            if log != want:
                viol.append(V("sequential:forward-order", f"Sequential applied its submodules in order {log}, registration order is {want}", trail=trail))
            if y is None or not np.array_equal(y.data, x.data):
                viol.append(V("sequential:forward-value", "Sequential of identity modules did not return its input", trail=trail))
    nmods = len(reach(root))
    nontrivial = depth >= 2 and (bool(features & {"shared-module", "shared-parameter"}) or any(f.startswith("reassign") for f in features) or nmods >= 3)

    def canon(m, seen):
        if m in seen:
            return "@"
        seen = seen | {m}
        return [model[m].kind[0]] + [(k, canon(o, seen) if k == "M" else "p") for nm, (k, o) in model[m].reg.items()]
    key = json.dumps([canon(root, set()), acts, sorted(features)]) if nontrivial else None
    return {"key": key, "viol": viol[:2], "counters": counters, "cover": {"features": sorted(features), "depth": [f"depth{min(depth, 5)}"], "actions": sorted(set(acts))},
            "sample": {"case": case, "trail": trail[:30]}}


def finish(agg, tier):
    c = agg["counters"]
    return [f"zero-events:{k}" for k in ("observations", "sequential_forwards") if not c.get(k)]
