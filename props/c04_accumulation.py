"""C04 — leaf gradients accumulate exactly across any history of graph constructions, backward calls and resets.

O3 ledger: expected[leaf] += d<g,node>/dleaf for every backward event, where the contribution is the finite-difference
derivative of a *fresh re-execution* of the node's sub-program from the leaves (no state shared with the history under
test); reset events zero the ledger entry.  After every event every leaf's .grad is compared with the ledger and the
bytes of everything unreachable from the root of the call are compared with a snapshot taken before it.
"""
import json
import numpy as np
from harness import gen, fd, monitors, programs

PID = "C04"
RULE = ("histories of 5-60 events over shared leaves (Parameters of one Module, also held by an optimizer): build (extend a global DAG by 1-6 "
        "ops that may reuse any earlier result), backward(node, g) from any root or interior node of anything built so far, repeated backward, "
        "retain_grad() on interior nodes, enter/leave retain_grads, reset via Tensor.zero_ / Module.zero_grad / Optimizer.zero_grad, backward "
        "directly on a leaf, optimizer steps with a zero learning rate (a step is neither a backward call nor a reset); the leaves live at several depths of a nested module tree; plus the named scenarios (l1.backward();(l1+l2).backward(), two sweeps through a retained node, micro-batches). "
        "Oracle: ledger of FD contributions; unreachable tensors byte-compared. distinct key = hash of the event-kind sequence with node roles; "
        "non-trivial = >= 2 backward events of which one starts at an interior or reused node, or a retained node is crossed twice")
RULE += (' Added after the seeded rounds: exact power-of-two ledgers (float64 and float32 leaves, no tolerance) across all reset kinds; optimizers constructed while a leaf is frozen; zero-lr optimizer steps; poison-then-reset; deep copies of the module / a leaf taken mid-history and differentiated on their own.')
RULE += (" Round 6 / reach monitor: two distinct parameters over one array (tied storage) in the exact-ledger histories; two resets in a row.")
ASSUMPTIONS = ["true contribution of a backward call = FD derivative (Richardson, 1e-6 relative) of <g, node> as a function of the leaves, by fresh re-execution",
               "the value of a retained non-leaf's own .grad across several calls is not asserted (PyTorch accumulates, resetting would also satisfy the statement); only leaves are",
               "a leaf not reachable from the root of a call must be left exactly as it was (None stays None)"]
SHARD_TIMEOUT = {"quick": 900, "thorough": 3600}

LEAVES = [{"shape": [3], "req": True}, {"shape": [2, 3], "req": True}, {"shape": [], "req": True}, {"shape": [3], "req": False}, {"shape": [3, 3], "req": True}]


def gen_cases(tier, seed):
    rng = gen.rng_for(seed, "c04", tier)
    n = 1000 if tier == "quick" else 12000
    cases = [{"scenario": s, "seed": int(rng.integers(2 ** 31))} for s in ("old-root-reused", "retained-twice", "micro-batches", "leaf-root")]
    for k in range(n // 10):
        cases.append({"scenario": "exact", "seed": int(rng.integers(2 ** 31))})
    for k in range(n):
        cases.append({"scenario": "random", "seed": int(rng.integers(2 ** 31)), "n_events": int(rng.integers(5, 61 if tier == "thorough" else 31))})
    return cases


def V(sig, what, **detail):
    return {"sig": sig, "what": what, "detail": detail}


class World:
    def __init__(self, ns, rng):
        self.ns, self.rng = ns, rng
        self.prog = {"leaves": LEAVES, "instrs": [], "final": None}
        self.npvals = [rng.standard_normal(tuple(l["shape"])) for l in LEAVES]
        self.leaf_vals = [v.copy() for v in self.npvals]
        m = ns.nn.Module()
        m.inner = ns.nn.Module()
        m.inner.deep = ns.nn.Module()
        m.seq = ns.nn.Sequential(ns.nn.Sequential(ns.nn.Module()))
        hosts = [m, m.inner, m.inner.deep, m.seq.submodules()[0].submodules()[0], m.inner.deep]       # parameters live at several depths
        self.params = []
        late = []
        for i, (l, v) in enumerate(zip(LEAVES, self.leaf_vals)):
            p = ns.nn.Parameter(ns.Tensor(v.copy(), requires_grad=l["req"]))
            if i in (2, 4):
                late.append((hosts[i % len(hosts)], f"p{i}", p))      # attached after the module tree has already been used once
            else:
                setattr(hosts[i % len(hosts)], f"p{i}", p)
            self.params.append(p)
        m.parameters(); m.zero_grad(); m.num_params()                 # the tree is queried before it is complete (a head is added later)
        for host_, name_, p_ in late:
            setattr(host_, name_, p_)
        self.module = m
        self.params[1].requires_grad = False            # frozen while the optimizers are constructed (fine-tuning schedules do this) ...
        self.opt = ns.optim.SGD([p for p, l in zip(self.params, LEAVES) if l["req"]], lr=0.1)
        # optimizers with a zero learning rate: a step is neither a backward call nor a reset, so .grad must survive it
        self.opt0 = [ns.optim.SGD([p for p, l in zip(self.params, LEAVES) if l["req"]], lr=0.0, momentum=0.9, nesterov=True),
                     ns.optim.Adam([p for p, l in zip(self.params, LEAVES) if l["req"]], lr=0.0),
                     ns.optim.Adam([p for p, l in zip(self.params, LEAVES) if l["req"]], lr=0.0, maximize=True),
                     ns.optim.SGD([p for p, l in zip(self.params, LEAVES) if l["req"]], lr=0.0, maximize=True, weight_decay=0.1)]
        self.params[1].requires_grad = True             # ... and unfrozen before the first graph is built
        self.tvals = {i: p for i, p in enumerate(self.params)}      # value id -> library Tensor
        self.ledger = [None] * len(LEAVES)
        self.n_exec = 0                                              # number of instructions already executed in the library
        self.retain_ctx = None
        self.events = []

    # which leaves a value depends on (through the program)
    def deps(self):
        n_l = len(LEAVES)
        d = {i: {i} for i in range(n_l)}
        vid = n_l
        for ins in self.prog["instrs"]:
            s = set()
            for i in ins["in"]:
                s |= d[i]
            for j in range(ins["nout"]):
                d[vid + j] = s
            vid += ins["nout"]
        return d

    def extend(self, n):
        saved = (self.prog, self.npvals, dict(self.tvals), self.n_exec)
        try:
            self._extend(n)
            return True
        except Exception:
            # the library rejected a forward call: not this property's business; the build is dropped
            self.prog, self.npvals, self.tvals, self.n_exec = saved
            return False

    def _extend(self, n):
        prog, vals = programs.generate(self.rng, n, len(LEAVES), init=(self.prog, self.npvals), join=False)
        self.prog = programs.fix_args(json.loads(json.dumps(prog)))
        self.npvals = vals
        # execute only the new instructions in the library
        n_l = len(LEAVES)
        vid = n_l + sum(i["nout"] for i in self.prog["instrs"][:self.n_exec])
        for ins in self.prog["instrs"][self.n_exec:]:
            out = programs.POPS[ins["op"]][1](self.ns, [self.tvals[i] for i in ins["in"]], ins["args"])
            outs = list(out) if isinstance(out, (tuple, list)) else [out]
            for j, o in enumerate(outs):
                self.tvals[vid + j] = o
            vid += ins["nout"]
        self.n_exec = len(self.prog["instrs"])

    def fresh_value(self, leaf_vals, node):
        ts = [self.ns.Tensor(np.array(v, dtype=np.float64)) for v in leaf_vals]
        with self.ns.sg.no_grad():
            vals = programs.run_library(self.ns, self.prog, ts)
        return np.asarray(vals[node].data, dtype=np.float64)

    def contribution(self, node, g):
        """FD derivative of <g, node(leaves)> for every leaf the node depends on; returns ({leaf: grad}, n_inconclusive)"""
        dep = self.deps()[node]
        out, ninc = {}, 0
        for li in sorted(dep):
            if not LEAVES[li]["req"]:
                continue
            if node == li:
                out[li] = np.array(g, dtype=np.float64)
                continue

            def phi(xv, li=li):
                lv = list(self.leaf_vals); lv[li] = xv
                return float(np.sum(self.fresh_value(lv, node) * g))
            want, ok, scale = fd.fd_grad(phi, self.leaf_vals[li], "richardson")
            ninc += int((~ok).sum())
            out[li] = (want, ok, scale)
        return out, ninc


def snapshot(w, exclude):
    snap = {}
    for vid, t in w.tvals.items():
        if vid in exclude:
            continue
        g = t._grad
        snap[vid] = (t.data.tobytes(), None if g is None else (g.shape, g.dtype.str, g.tobytes()))
    return snap


def run_history(ns, mon, case):
    rng = gen.rng_for(case["seed"], "hist")
    w = World(ns, rng)
    viol, counters = [], {}
    kinds = []
    nback = interior_back = 0
    ninc = 0
    retained = set()
    seeds = {}
    crossed_retained_twice = False
    crossed = {}

    def compare_ledger(after):
        for li, p in enumerate(w.params):
            exp = w.ledger[li]
            got = p._grad
            counters["ledger_comparisons"] = counters.get("ledger_comparisons", 0) + 1
            if exp is None:
                if got is not None and LEAVES[li]["req"] and np.any(got != 0):
                    viol.append(V("ledger:unreached-leaf-has-gradient", "a leaf never reached since its last reset holds a non-zero gradient",
                                  leaf=li, after=after, events=w.events[-6:]))
                continue
            if got is None and exp.get("fresh"):
                continue                                    # a reset may leave zeros or no gradient at all: both are an empty sum
            if got is None:
                viol.append(V("ledger:leaf-gradient-missing", "a leaf reached by a backward call has no gradient", leaf=li, after=after, events=w.events[-6:]))
                continue
            if got.shape != exp["v"].shape:
                viol.append(V("ledger:leaf-gradient-shape", "leaf gradient shape differs", leaf=li, after=after)); continue
            tol = 1e-6 * (exp["scale"] + np.abs(exp["v"]))
            with np.errstate(invalid="ignore"):
                bad = exp["ok"] & ~(np.abs(got - exp["v"]) <= tol)          # a NaN gradient is a mismatch, not a pass
            if bad.any():
                kind = after.split(":")[0]
                viol.append(V(f"ledger:leaf-gradient-differs-from-sum-of-contributions:after-{kind}",
                              "a leaf's .grad is not the sum of the true gradients of the backward calls since its last reset",
                              leaf=li, got=got.tolist(), want=exp["v"].tolist(), after=after, events=w.events))

    def do_backward(node):
        nonlocal nback, interior_back, ninc, crossed_retained_twice
        t = w.tvals[node]
        if not t.requires_grad:
            return False
        # the caller may keep one seed tensor per node and hand it in again (it must still hold what the caller put there)
        reuse = node in seeds and rng.random() < 0.5
        if reuse:
            g = seeds[node][1]
            if not np.array_equal(seeds[node][0].data, g):
                viol.append(V("history:caller-seed-changed", "a seed tensor kept by the caller no longer holds the values it was given", events=w.events[-6:]))
                g = np.array(seeds[node][0].data, dtype=np.float64)
        else:
            g = rng.standard_normal(t.shape) if t.shape else np.array(float(rng.uniform(0.5, 2.0)))
        own = None
        if not reuse and rng.random() < 0.2:
            # the seed is the .grad of some tensor of the history (a leaf's accumulated gradient, a retained intermediate's, the root's own):
            # what is propagated is the value it holds when the call is made
            cands = [v_ for v_ in w.tvals.values() if v_._grad is not None and tuple(v_._grad.shape) == tuple(t.shape) and v_._grad.size
                     and np.all(np.isfinite(v_._grad)) and float(np.max(np.abs(v_._grad))) < 1e6]
            if cands:
                own = cands[int(rng.integers(len(cands)))]
                g = np.array(own._grad, dtype=np.float64)
                counters["seeds_taken_from_a_grad_attribute"] = counters.get("seeds_taken_from_a_grad_attribute", 0) + 1
        contrib, ni = w.contribution(node, g)
        ninc += ni
        dep = w.deps()
        # everything the root does not depend on must stay byte-identical; reachable = values that are ancestors of node
        anc = ancestors(w.prog, node)
        snap = snapshot(w, exclude=anc)
        w.events.append(["backward", node, "leaf" if node < len(LEAVES) else ("interior" if is_consumed(w.prog, node) else "root")])
        if not reuse and own is None:
            seeds[node] = (ns.Tensor(np.array(g, dtype=np.float64)), np.array(g, dtype=np.float64))
        try:
            if own is not None:
                import io, contextlib
                with contextlib.redirect_stdout(io.StringIO()):
                    seed_t = own.grad
                t.backward(seed_t)
            else:
                t.backward(seeds[node][0])
        except Exception as e:
            import traceback
            viol.append(V("history:backward-raises", f"backward raised {type(e).__name__} in a legal history", error=str(e)[:200],
                          tb=traceback.format_exc()[-500:], events=w.events))
            return True
        nback += 1
        if node >= len(LEAVES) and is_consumed(w.prog, node):
            interior_back += 1
        for r_ in retained & anc:
            crossed[r_] = crossed.get(r_, 0) + 1
            if crossed[r_] >= 2:
                crossed_retained_twice = True
        for li, c in contrib.items():
            if isinstance(c, tuple):
                want, ok, scale = c
            else:
                want, ok, scale = c, np.ones(c.shape, dtype=bool), 1.0
            if w.ledger[li] is None:
                w.ledger[li] = {"v": np.zeros_like(w.leaf_vals[li]), "ok": np.ones(w.leaf_vals[li].shape, dtype=bool), "scale": 1.0}
            L = w.ledger[li]
            L["fresh"] = False
            L["v"] = L["v"] + np.where(ok, want, 0.0)
            L["ok"] = L["ok"] & ok
            L["scale"] = max(L["scale"], scale, float(np.max(np.abs(L["v"]))) if L["v"].size else 1.0)
        after = snapshot(w, exclude=anc)
        for vid, s in snap.items():
            if after.get(vid) != s:
                what = "data" if after[vid][0] != s[0] else "grad"
                viol.append(V(f"history:unreachable-tensor-changed:{what}", "a tensor not reachable from the root of a backward call was changed by it",
                              value=vid, is_leaf=vid < len(LEAVES), events=w.events))
                break
        counters["unreachable_snapshots_compared"] = counters.get("unreachable_snapshots_compared", 0) + len(snap)
        compare_ledger(f"backward:{node}")
        return True

    def reset(kind):
        w.events.append([kind])
        if kind == "zero_tensor":
            li = int(rng.integers(len(LEAVES)))
            if not LEAVES[li]["req"]:
                return
            w.events[-1].append(li)
            w.params[li].zero_()
            w.ledger[li] = {"v": np.zeros_like(w.leaf_vals[li]), "ok": np.ones(w.leaf_vals[li].shape, dtype=bool), "scale": 1.0, "fresh": True}
        else:
            (w.module.zero_grad if kind == "zero_module" else w.opt.zero_grad)()
            for li, l in enumerate(LEAVES):
                if l["req"]:
                    w.ledger[li] = {"v": np.zeros_like(w.leaf_vals[li]), "ok": np.ones(w.leaf_vals[li].shape, dtype=bool), "scale": 1.0, "fresh": True}
        compare_ledger(kind)

    sc = case["scenario"]
    if sc == "random":
        w.extend(int(rng.integers(2, 7)))
        w.events.append(["build", w.n_exec])
        for _ in range(case["n_events"]):
            r = rng.random()
            nvals = len(w.tvals)
            if r < 0.2:
                w.extend(int(rng.integers(1, 6)))
                w.events.append(["build", w.n_exec])
                kinds.append("build")
            elif r < 0.62:
                cands = [v for v in w.tvals if w.tvals[v].requires_grad]
                # prefer interior / recently built / earlier roots
                node = cands[int(rng.integers(len(cands)))] if rng.random() < 0.5 else cands[-1 - int(rng.integers(min(4, len(cands))))]
                if do_backward(node):
                    kinds.append("bw-" + w.events[-1][2])
            elif r < 0.72:
                cands = [v for v in w.tvals if v >= len(LEAVES) and w.tvals[v].requires_grad]
                if cands:
                    v = cands[int(rng.integers(len(cands)))]
                    w.tvals[v].retain_grad()
                    retained.add(v)
                    w.events.append(["retain_grad", v])
                    kinds.append("retain")
            elif r < 0.80:
                if w.retain_ctx is None:
                    w.retain_ctx = ns.sg.retain_grads()
                    w.retain_ctx.__enter__()
                    w.events.append(["retain_grads_enter"]); kinds.append("ctx-on")
                else:
                    w.retain_ctx.__exit__(None, None, None)
                    w.retain_ctx = None
                    w.events.append(["retain_grads_exit"]); kinds.append("ctx-off")
            elif r < 0.83:
                # a backward call with a non-finite seed, followed at once by a full reset: nothing of it may survive the reset
                cands = [v for v in w.tvals if w.tvals[v].requires_grad and v >= len(LEAVES)]
                if cands:
                    t_ = w.tvals[cands[int(rng.integers(len(cands)))]]
                    gp = np.full(t_.shape, np.inf)
                    with np.errstate(all="ignore"):
                        try:
                            t_.backward(ns.Tensor(gp))
                        except Exception:
                            pass
                    w.events.append(["backward_with_inf_seed"])
                    reset(["zero_module", "zero_optimizer"][int(rng.integers(2))])
                    kinds.append("poison-reset")
            elif r < 0.86:
                o = w.opt0[int(rng.integers(len(w.opt0)))]
                o.step()
                w.events.append(["optimizer_step_lr0", type(o).__name__])
                kinds.append("step0")
                compare_ledger("optimizer-step")
            elif r < 0.885:
                # a snapshot copy (target network, EMA teacher, checkpoint in memory) taken while the leaves hold gradients, then trained on its own:
                # the originals are not reachable from that root
                import copy as _copy
                li_ = [i for i, l in enumerate(LEAVES) if l["req"]]
                li_ = li_[int(rng.integers(len(li_)))]
                try:
                    cp = _copy.deepcopy(w.module) if rng.random() < 0.5 else _copy.deepcopy(w.params[li_])
                    cps = cp.parameters() if hasattr(cp, "parameters") else [cp]
                    tot_ = None
                    for q in cps:
                        if q.requires_grad:
                            t_ = (q * q).sum()
                            tot_ = t_ if tot_ is None else tot_ + t_
                    if tot_ is not None:
                        tot_.backward()
                    w.events.append(["deepcopy_and_backward_through_the_copy"])
                    kinds.append("deepcopy")
                    counters["deepcopy_events"] = counters.get("deepcopy_events", 0) + 1
                    compare_ledger("backward-through-a-deep-copy")
                except Exception as e:
                    counters["deepcopy_rejected"] = counters.get("deepcopy_rejected", 0) + 1
            elif r < 0.905:
                # calls that are neither a backward call nor a reset: unfreeze() of a model whose parameters are all trainable already, train() / eval(),
                # reading parameters() / num_params() - the accumulated gradients stay what they are
                which_ = int(rng.integers(4))
                try:
                    [w.module.unfreeze, w.module.eval, w.module.train, lambda: (w.module.parameters(), w.module.num_params())][which_]()
                except Exception:
                    pass
                for li_, l_ in enumerate(LEAVES):
                    if not l_["req"] and w.params[li_].requires_grad:
                        w.params[li_].requires_grad = False          # (the leaf that is a constant by design stays one)
                w.events.append([["module.unfreeze()", "module.eval()", "module.train()", "parameters()/num_params()"][which_]])
                kinds.append("no-op-call")
                counters["non_reset_calls"] = counters.get("non_reset_calls", 0) + 1
                compare_ledger("a-call-that-is-not-a-reset")
            else:
                k = ["zero_tensor", "zero_module", "zero_optimizer"][int(rng.integers(3))]
                reset(k)
                kinds.append(k)
            if len(viol) > 3:
                break
        if w.retain_ctx is not None:
            w.retain_ctx.__exit__(None, None, None)
    else:
        L = ns
        p = w.params
        n_l = len(LEAVES)

        def add_instr(op, ins, args=None, nout=1):
            w.prog["instrs"].append({"op": op, "in": ins, "args": args or {}, "nout": nout})
            w.npvals = programs.run_numpy(w.prog, w.npvals[:n_l])
            vid = n_l + sum(i["nout"] for i in w.prog["instrs"][:-1])
            out = programs.POPS[op][1](ns, [w.tvals[i] for i in ins], args or {})
            w.tvals[vid] = out
            w.n_exec = len(w.prog["instrs"])
            return vid
        if sc == "old-root-reused":
            a = add_instr("mul", [0, 0]); l1 = add_instr("sum", [a], {"dim": None, "keepdims": False})
            b = add_instr("scale", [0], {"c": 3.0}); l2 = add_instr("sum", [b], {"dim": None, "keepdims": False})
            do_backward(l1)
            tot = add_instr("add", [l1, l2])
            do_backward(tot)
            do_backward(tot)
            kinds = ["bw-root", "build", "bw-root", "bw-root"]
        elif sc == "retained-twice":
            y = add_instr("scale", [0], {"c": 2.0})
            w.tvals[y].retain_grad(); retained.add(y)
            z = add_instr("mul", [y, y]); zs = add_instr("sum", [z], {"dim": None, "keepdims": False})
            do_backward(zs)
            z2 = add_instr("scale", [y], {"c": 3.0}); z2s = add_instr("sum", [z2], {"dim": None, "keepdims": False})
            do_backward(z2s)
            do_backward(y)
            do_backward(zs)
            kinds = ["retain", "bw-root", "build", "bw-root", "bw-interior", "bw-root"]
        elif sc == "micro-batches":
            roots = []
            for k in range(3):
                a = add_instr("mul", [1, 1]); s_ = add_instr("sum", [a], {"dim": None, "keepdims": False})
                b = add_instr("matmul", [1, 4]); bs = add_instr("sum", [b], {"dim": None, "keepdims": False})
                roots.append(add_instr("add", [s_, bs]))
            for r_ in roots:
                do_backward(r_)
            reset("zero_optimizer")
            for r_ in roots[:2]:
                do_backward(r_)
            reset("zero_module")
            do_backward(roots[2])
            kinds = ["bw-root"] * 3 + ["zero_optimizer", "bw-root", "bw-root", "zero_module", "bw-root"]
        elif sc == "leaf-root":
            do_backward(0); do_backward(0)
            a = add_instr("scale", [0], {"c": 2.0})
            do_backward(a); do_backward(0)
            reset("zero_tensor")
            do_backward(0)
            kinds = ["bw-leaf", "bw-leaf", "build", "bw-interior", "bw-leaf", "zero_tensor", "bw-leaf"]
    mv = [v for v in mon.drain() if not v["sig"].startswith(("grad-dtype", "release"))]
    counters["histories"] = 1
    counters["backward_events"] = nback
    counters["events"] = len(w.events)
    nontrivial = nback >= 2 and (interior_back >= 1 or crossed_retained_twice or sc != "random")
    key = json.dumps(kinds) if nontrivial else None
    seen, vv = set(), []
    for v in viol + mv:
        if v["sig"] not in seen:
            seen.add(v["sig"]); vv.append(v)
    return {"key": key, "viol": vv, "counters": counters, "inconclusive": ninc,
            "cover": {"event_kinds": sorted(set(kinds)), "scenarios": [sc],
                      "structures": [k for k, b in (("interior-root", interior_back > 0), ("retained-crossed-twice", crossed_retained_twice)) if b]},
            "sample": {"case": case, "events": w.events[:40]}}


def ancestors(prog, node):
    """value ids the node depends on (including itself and every intermediate value)"""
    n_l = len(prog["leaves"])
    owner = {}
    vid = n_l
    for k, ins in enumerate(prog["instrs"]):
        for j in range(ins["nout"]):
            owner[vid + j] = k
        vid += ins["nout"]
    seen, stack = {node}, [node]
    while stack:
        v = stack.pop()
        if v >= n_l:
            for i in prog["instrs"][owner[v]]["in"]:
                if i not in seen:
                    seen.add(i); stack.append(i)
    return seen


def is_consumed(prog, node):
    return any(node in ins["in"] for ins in prog["instrs"])


def run_exact(ns, mon, case):
    """contributions that are exact in the leaf's own arithmetic (powers of two of very different magnitude): the accumulated .grad is their exact
    sum, call after call and across every kind of reset - no finite-difference tolerance involved"""
    T, nn = ns.Tensor, ns.nn
    rng = gen.rng_for(case["seed"], "c04x")
    viol, counters = [], {"exact_histories": 1}
    for dt, exps in ((np.float64, [20, 0, -30, -12, 3]), (np.float32, [10, 0, -11, -5, 2])):
        x = nn.Parameter(T(rng.standard_normal((3,)).astype(dt), requires_grad=True))
        box = nn.Module(); box.p = x
        # tied storage (half of the histories): a second, distinct parameter over the very array x holds (encoder / decoder sharing one buffer);
        # it is a leaf of its own - own contributions, reset by every reset that covers the module / the optimizer's parameter list
        tied = rng.random() < 0.5
        y = None
        if tied:
            y = nn.Parameter(T(x.data, requires_grad=True))
            box.inner = nn.Module(); box.inner.q = y
            counters["tied_storage_histories"] = counters.get("tied_storage_histories", 0) + 1
        opt = ns.optim.SGD(box.parameters() if tied else [x], lr=0.0)
        total = np.zeros(3, dtype=np.float64)
        total_y = np.zeros(3, dtype=np.float64)
        order = [int(i) for i in rng.permutation(len(exps))]
        for step, i in enumerate(order * 2):
            c = float(2.0 ** exps[i])
            if rng.random() < 0.5:
                l_ = (x * c).sum()
            else:
                l_ = (x * T(np.full(3, c, dtype=dt))).sum()
            if tied:
                l_ = l_ + (y * (2 * c)).sum()
                total_y += 2 * c
            l_.backward()
            total += c
            counters["exact_comparisons"] = counters.get("exact_comparisons", 0) + 1
            g = x._grad
            if g is None or not np.array_equal(np.asarray(g, dtype=np.float64), total):
                viol.append(V(f"exact:leaf-gradient-is-not-the-exact-sum:{np.dtype(dt).name}", "contributions 2^k of different magnitude, each exactly representable "
                              "together in the leaf's dtype, did not add up exactly (the gradient buffer has less precision than the leaf?)",
                              got=None if g is None else np.asarray(g, dtype=np.float64).tolist(), want=total.tolist(), step=step, dtype=np.dtype(dt).name))
                break
            if tied and (y._grad is None or not np.array_equal(np.asarray(y._grad, dtype=np.float64), total_y)):
                viol.append(V("exact:tied-storage:second-parameter-gradient", "a second parameter over the same array did not accumulate exactly its own contributions since its last reset",
                              got=None if y._grad is None else np.asarray(y._grad, dtype=np.float64).tolist(), want=total_y.tolist(), step=step))
                break
            nresets = int(rng.random() < 0.35) + int(rng.random() < 0.12)          # sometimes two resets in a row (a discarded micro-batch, a restarted window)
            for _ in range(nresets):
                kind = int(rng.integers(3))
                (x.zero_ if kind == 0 else (box.zero_grad if kind == 1 else opt.zero_grad))()
                total[:] = 0.0
                if kind != 0:
                    total_y[:] = 0.0
                g = x._grad
                if g is not None and np.any(np.asarray(g) != 0):
                    viol.append(V("exact:reset-left-a-gradient", "a reset left a non-zero gradient on the leaf", kind=["zero_", "module.zero_grad", "optimizer.zero_grad"][kind]))
                    break
                if tied and kind != 0 and y._grad is not None and np.any(np.asarray(y._grad) != 0):
                    viol.append(V("exact:reset-left-a-gradient:tied-storage", "a module / optimizer reset left a non-zero gradient on a second parameter over the same array",
                                  kind=["zero_", "module.zero_grad", "optimizer.zero_grad"][kind]))
                    break
            if viol:
                break
    mv = [v for v in mon.drain() if not v["sig"].startswith(("grad-dtype", "release"))]
    return {"key": ("exact", case["seed"] % 50), "viol": viol + mv, "counters": counters, "cover": {"scenarios": ["exact-powers-of-two"]}}


def run_case(ns, mon, case):
    if case.get("scenario") == "exact":
        return run_exact(ns, mon, case)
    return run_history(ns, mon, case)


def setup(ns, tier, seed):
    mon = monitors.Monitors(ns)
    mon.install_backward_trace()
    return mon


def teardown(ns, mon):
    return {"counters": mon.take_counters()}


def finish(agg, tier):
    c = agg["counters"]
    return [f"zero-events:{k}" for k in ("ledger_comparisons", "backward_events", "unreachable_snapshots_compared", "backward_sweeps") if not c.get(k)]
