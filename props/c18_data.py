"""C18 — split_dataset / DataLoader / one_hot_encode lose or misalign no sample.

Oracle O3: index-arithmetic model.  Every sample carries a unique id (x_i = (i, i+0.5), y_i = i) so that each
returned row identifies its origin: membership, pairing, duplication and order are decided exactly.
"""
import math
from fractions import Fraction

PID = "C18"
NEEDS_UTILS = True
RULE = ("split: exhaustive grid n in 0..N x test fraction x val fraction (None + 0.05 grid incl. 0 and 1) x shuffle off/on(seeds); "
        "loader: n in 0..N x batch_size 1..n+3 x transform none/identity/tagging x iterate twice / break+restart; "
        "one_hot: label sets (ints, floats, strings, unsorted, gaps). distinct key = (kind, n, arguments); "
        "non-trivial = n >= 2 (split/loader) or >= 2 distinct labels (one_hot)")
RULE += (' Added after the seeded rounds: a callable transform object with len() == 0, labels as ndarray / column / nested lists (refusing is fine, a wrong encoding is not), close float labels.')
RULE += (" Round 6 / reach monitor: the transform as the fourth positional argument.")
ASSUMPTIONS = ["pkbar is replaced by a silent stub only if its import fails in this sandbox (progress bar, unrelated to data handling)",
               "floor rule accepted in exact rational or in binary floating arithmetic (both are 'floor(frac*n)')",
               "which samples go to which split is not prescribed by the property; only sizes, partition, pairing and (shuffle off) relative order are asserted"]
EXHAUSTIVE = {"quick": "n<=16, fractions on 0.1 grid, batch sizes 1..n+3", "thorough": "n<=64, fractions on 0.05 grid, batch sizes 1..n+3"}
SHARDS_PER_JOB = 1
SHARD_TIMEOUT = {"quick": 900, "thorough": 3600}


def gen_cases(tier, seed):
    N = 16 if tier == "quick" else 64
    step = 10 if tier == "quick" else 5
    fr = [i / 100 for i in range(0, 101, step)]
    cases = []
    for n in range(0, N + 1):
        cases.append({"kind": "split", "n": n, "fracs": fr, "seeds": [seed, seed + 1]})
        cases.append({"kind": "loader", "n": n})
    if tier == "quick":
        for n in (17, 20, 23, 31, 32, 37, 40, 50, 100):      # beyond the exhaustive part: larger datasets on a coarser grid
            cases.append({"kind": "split", "n": n, "fracs": [0.0, 0.05, 0.2, 0.25, 0.45, 0.5, 0.7, 0.85, 0.95, 1.0], "seeds": [seed]})
            cases.append({"kind": "loader", "n": n})
    # sizes around the limits of the small integer types (index arithmetic)
    for n in (255, 256, 257) + ((32767, 32768, 65536, 65537) if tier == "thorough" else ()):
        cases.append({"kind": "split", "n": n, "fracs": [0.1, 0.5], "seeds": [seed]})
        cases.append({"kind": "loader", "n": n, "bs_list": [1, 2, 16, 255, 256, 257] if n < 1000 else [255, 4096, 32768, n]})
    cases.append({"kind": "onehot", "seed": seed, "count": 60 if tier == "quick" else 600})
    return cases


def floors(frac, n):
    a = int(math.floor(frac * n))
    b = int(math.floor(Fraction(str(frac)) * n))
    return {a, b}


def V(sig, what, **detail):
    return {"sig": sig, "what": what, "detail": detail}


def check_split(ns, n, tf, vf, shuffle, seed):
    np = ns.np
    X = [[float(i), i + 0.5] for i in range(n)]
    y = [float(i) for i in range(n)]
    if shuffle:
        np.random.seed(seed)
    arg = dict(n=n, test_split=tf, val_split=vf, shuffle=shuffle)
    try:
        train, test, val = ns.data.split_dataset(X, y, test_split=tf, val_split=vf, shuffle=shuffle)
    except Exception as e:
        return [V("split:raises", f"split_dataset raised {type(e).__name__} on a legal configuration", args=arg, error=str(e)[:200])]
    out = []
    if (val is None) != (vf is None):
        out.append(V("split:validation-presence", "validation set present iff val_split given", args=arg))
        return out
    sets = {"train": train, "test": test}
    if val is not None:
        sets["val"] = val
    ids = {}
    for name, (Xs, ys) in sets.items():
        Xs = np.asarray(Xs); ys = np.asarray(ys)
        if len(Xs) != len(ys):
            out.append(V("split:pairing-length", f"{name}: len(X) != len(y)", args=arg))
            continue
        if len(Xs):
            if Xs.ndim != 2 or not (np.all(Xs[:, 1] == Xs[:, 0] + 0.5) and np.all(Xs[:, 0] == ys)):
                out.append(V("split:pairing", f"{name}: feature row and label belong to different samples", args=arg,
                             X=Xs.tolist(), y=ys.tolist()))
        ids[name] = [int(v) for v in ys.tolist()] if len(ys) else []
    if out:
        return out
    allids = sum(ids.values(), [])
    if sorted(allids) != list(range(n)):
        out.append(V("split:partition", "samples lost or duplicated across the splits", args=arg, ids=ids))
    wt = floors(tf, n)
    if len(ids["test"]) not in wt:
        out.append(V("split:test-size", f"test size {len(ids['test'])} not floor(test_split*n) {sorted(wt)}", args=arg))
    else:
        rem = n - len(ids["test"])
        if vf is not None:
            wv = floors(vf, rem)
            if len(ids["val"]) not in wv:
                out.append(V("split:val-size", f"val size {len(ids['val'])} not floor(val_split*remaining) {sorted(wv)}", args=arg))
    if not shuffle:
        for name, l in ids.items():
            if l != sorted(l):
                out.append(V("split:order", f"{name}: original order not preserved with shuffle off", args=arg, ids=l))
    return out


class _Tag:
    def __init__(self):
        self.calls = []

    def __call__(self, loader, Xb, yb):
        self.calls.append((loader, Xb, yb))
        return ("T", Xb, yb)


class _TagSized(_Tag):
    """a callable transform that is also a (currently empty) container: a pipeline object whose len() is its number of extra steps"""
    def __len__(self):
        return 0


def check_loader(ns, n, bs, mode):
    np = ns.np
    X = np.array([[float(i), i + 0.5] for i in range(n)], dtype=np.float32).reshape(n, 2)
    y = np.arange(n, dtype=np.float32)
    arg = dict(n=n, batch_size=bs, transform=mode)
    tag = (_TagSized() if mode == "tagging-sized" else _Tag()) if mode.startswith("tagging") else None
    twod = mode == "none-2d-labels"
    if twod:
        # labels with several columns (one-hot rows): samples are still rows
        y2 = np.stack([y, y + 0.25, y + 0.75], axis=1)
    try:
        if mode == "none-npint":
            dl = ns.data.DataLoader(X, y, np.int64(bs))          # a batch size that comes out of NumPy arithmetic
        elif twod:
            dl = ns.data.DataLoader(X, y2, bs)
        elif mode == "none":
            dl = ns.data.DataLoader(X, y, bs)
        elif (n + bs) % 2:
            dl = ns.data.DataLoader(X, y, bs, tag)               # the transform as the fourth positional argument (its documented position)
        else:
            dl = ns.data.DataLoader(X, y, bs, transform=tag)
        want_n = n // bs
        out = []
        if len(dl) != want_n:
            out.append(V("loader:len", f"len(loader)={len(dl)} != floor(n/batch_size)={want_n}", args=arg))

        def collect(it, limit=None):
            got = []
            for k, item in enumerate(it):
                got.append(item)
                if limit is not None and k + 1 >= limit:
                    break
            return got
        first = collect(dl)
        partial = collect(dl, limit=1) if want_n > 1 else []
        second = collect(dl)
    except Exception as e:
        return [V("loader:raises:" + ("no-transform" if mode == "none" else "with-transform"),
                  f"DataLoader raised {type(e).__name__} on a legal configuration", args=arg, error=str(e)[:200])]
    for label, got in (("first", first), ("second-after-break", second)):
        if len(got) != want_n:
            out.append(V("loader:batch-count:" + label, f"{label} iteration yielded {len(got)} batches, want {want_n}", args=arg))
            continue
        for i, item in enumerate(got):
            if mode.startswith("tagging"):
                if not (isinstance(item, tuple) and len(item) == 3 and item[0] == "T"):
                    out.append(V("loader:transform-bypassed", "batch was not passed through the transform", args=arg)); break
                Xb, yb = item[1], item[2]
            else:
                if not (isinstance(item, (tuple, list)) and len(item) == 2):
                    out.append(V("loader:item-form", "batch is not an (X, y) pair", args=arg, got=repr(item)[:100])); break
                Xb, yb = item
            Xb = np.asarray(Xb); yb = np.asarray(yb)
            if twod:
                if yb.ndim != 2 or yb.shape[1:] != (3,) or (len(yb) and not (np.array_equal(yb[:, 1], yb[:, 0] + 0.25) and np.array_equal(yb[:, 2], yb[:, 0] + 0.75))):
                    out.append(V("loader:alignment:2d-labels", f"batch {i}: rows of a 2-D label array were not kept together", args=arg)); break
                yb = yb[:, 0]
            if len(Xb) != bs or len(yb) != bs:
                out.append(V("loader:batch-size", f"batch {i} has {len(Xb)}/{len(yb)} samples, want exactly {bs}", args=arg)); break
            wantids = np.arange(i * bs, (i + 1) * bs)
            if not (np.array_equal(yb, wantids) and np.array_equal(Xb[:, 0], wantids) and np.array_equal(Xb[:, 1], wantids + 0.5)):
                out.append(V("loader:alignment", f"batch {i} is not the consecutive aligned slice", args=arg, y=yb.tolist())); break
    if mode.startswith("tagging") and not out:
        if len(tag.calls) != want_n * 2 + len(partial):
            out.append(V("loader:transform-calls", "transform not called exactly once per yielded batch", args=arg,
                         calls=len(tag.calls)))
        elif any(c[0] is not dl for c in tag.calls):
            out.append(V("loader:transform-arg", "transform did not receive the loader", args=arg))
    return out


def check_onehot(ns, labels, form="list"):
    np = ns.np
    given = labels
    if form == "ndarray":
        given = np.array(labels)
    elif form == "column":
        given = np.array(labels).reshape(-1, 1)
    elif form == "nested":
        given = [[l] for l in labels]
    try:
        enc = ns.data.one_hot_encode(given)
    except Exception as e:
        if form in ("column", "nested"):
            return []               # labels as a column / nested lists are not promised to be accepted: refusing is fine, a wrong encoding is not
        return [V("onehot:raises" + ("" if form == "list" else ":" + form), f"one_hot_encode raised {type(e).__name__} for labels given as {form}", labels=labels, error=str(e)[:200])]
    uniq = sorted(set(labels))
    want = np.zeros((len(labels), len(uniq)), dtype=int)
    for r, l in enumerate(labels):
        want[r, uniq.index(l)] = 1
    enc = np.asarray(enc)
    if len(labels) == 0:
        return []
    if enc.shape != want.shape or not np.array_equal(enc, want):
        return [V("onehot:value" + ("" if form == "list" else ":" + form), f"one-hot row is not the unit vector at the index of the label among sorted distinct labels (labels given as {form})",
                  labels=labels, got=enc.tolist())]
    return []


def run_case(ns, ctx, case):
    import random
    viol, keys, evals = [], [], 0
    counters = {}
    if case["kind"] == "split":
        n = case["n"]
        for tf in case["fracs"]:
            for vf in [None] + case["fracs"]:
                for shuffle, seed in [(False, 0)] + [(True, s) for s in case["seeds"]]:
                    viol += check_split(ns, n, tf, vf, shuffle, seed)
                    evals += 1
                    if n >= 2:
                        keys.append(("split", n, tf, vf, shuffle, seed))
                    if not shuffle and (float(tf) in (0.0, 1.0, 0.5) or (vf is not None and float(vf) in (0.0, 1.0, 0.5))):
                        # the same fractions spelled with other number types (the end points 0 and 1 as Python / NumPy integers, NumPy floats):
                        # a fraction is a fraction whatever its type
                        def spell(f_, how):
                            if f_ is None:
                                return None
                            if float(f_) in (0.0, 1.0):
                                return [int(f_), ns.np.int64(int(f_)), ns.np.float32(f_), ns.np.int32(int(f_))][how % 4]
                            return [ns.np.float64(f_), ns.np.float32(f_)][how % 2] if float(f_) == 0.5 else f_
                        for how in range(4):
                            tf2, vf2 = spell(tf, how), spell(vf, how + 1)
                            viol += [dict(v_, sig=v_["sig"] + ":fraction-given-as-" + type(tf2).__name__ + ("/" + type(vf2).__name__ if vf2 is not None else ""))
                                     for v_ in check_split(ns, n, tf2, vf2, shuffle, seed)]
                            evals += 1
                            counters["split_calls_other_number_types"] = counters.get("split_calls_other_number_types", 0) + 1
        counters["split_calls"] = evals
    elif case["kind"] == "loader":
        n = case["n"]
        for bs in (case.get("bs_list") or range(1, n + 4)):
            for mode in ("none", "tagging") + (("tagging-sized",) if bs % 3 == 1 else ()) + (("none-npint",) if bs % 3 == 2 else ()) + (("none-2d-labels",) if bs % 3 == 0 else ()):
                viol += check_loader(ns, n, bs, mode)
                evals += 1
                if n >= 2:
                    keys.append(("loader", n, bs, mode))
        counters["loader_configs"] = evals
    else:
        rng = random.Random(case["seed"])
        pools = [list(range(-3, 8)), [0.5, 1.5, -2.25, 3.0, 10.0], ["a", "b", "zz", "c", "B"], [10, 20, 40, 70], [3, 1, 2], [-1, 1], [-2, 0, 2], [-1, 0, 2],
                 [-3, -1], [0, 1, 2], [1000001.0, 1000002.0, 1000003.0], [202401.0, 202402.0], [0.0, 1e-9, 1.0], [True, False]]
        for k in range(case["count"]):
            pool = pools[k % len(pools)]
            m = rng.randint(0, 9)
            labels = [rng.choice(pool) for _ in range(m)]
            if k % 7 == 0 and len(pool) <= 3:
                labels = list(pool) + labels             # make sure every label of a small pool occurs
            viol += check_onehot(ns, labels)
            evals += 1
            if labels and not isinstance(labels[0], bool) and len({type(l) for l in labels}) == 1:
                form = ["ndarray", "column", "nested"][k % 3]
                viol += check_onehot(ns, labels, form)
                evals += 1
            if len(set(labels)) >= 2:
                keys.append(("onehot", tuple(labels)))
        # degenerate label sets, enumerated: one distinct label (one column), a single sample, many classes (two-digit counts), repeated single class
        for labels in ([5], [5, 5, 5], [0], [0, 0], ["x"], ["x", "x"], [2.5, 2.5], list(range(12)), list(range(11, -1, -1)), [7, 3, 7, 3, 7], [100, 20, 3], [-10, -9, -2, -1]):
            viol += check_onehot(ns, labels)
            viol += check_onehot(ns, labels, "ndarray")
            evals += 2
            counters["onehot_degenerate_label_sets"] = counters.get("onehot_degenerate_label_sets", 0) + 1
        counters["onehot_calls"] = evals
    # de-duplicate violations per signature within a case (keep first witness)
    seen, vv = set(), []
    for v in viol:
        if v["sig"] not in seen:
            seen.add(v["sig"]); vv.append(v)
    return {"keys": keys, "evals": evals, "viol": vv, "counters": counters,
            "sample": {"case": case if case["kind"] != "split" else {"kind": "split", "n": case["n"], "fracs": "grid", "seeds": case["seeds"]}}}


def finish(agg, tier):
    r = []
    for k in ("split_calls", "loader_configs", "onehot_calls"):
        if not agg["counters"].get(k):
            r.append(f"zero-events:{k}")
    return r
