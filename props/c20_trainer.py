"""C20 — Trainer.fit: one optimisation step per batch in the right mode (TrainerTrace + offline grammar checker + O3 for Evaluator)."""
import hashlib, json
import numpy as np
from harness import gen

PID = "C20"
NEEDS_UTILS = True
RULE = ("Trainer.fit / Trainer.test runs over epochs 1-4 x training batches 1-6 x with/without validation loader x with/without evaluator x label "
        "modes {binary, multi-class, categorical} x models with Dropout and BatchNorm (optionally left partly in eval mode before fit) x {SGD, Adam} (optionally holding a parameter that is not part of the model) x callbacks (on_train_epoch, "
        "on_validation_epoch, evaluator step/epoch callbacks); every optimizer.step / zero_grad, model.train / eval, model forward, loss call and "
        "backward is recorded with the training flag of every submodule, the gradient mode (probed behaviourally) and a SHA-256 of all parameters "
        "and batch-norm buffers, whether all optimizer-held gradients are clear when a backward starts and whether they are unchanged between backward and step; batches are classified by role (back-propagated or not) and the trace is checked offline against the grammar of the statement; history and accuracies are recomputed from "
        "the recorded batch losses / outputs. distinct key = configuration tuple; non-trivial = >= 2 epochs or >= 2 batches")
RULE += (' Added after the seeded rounds: optimizer holding a parameter outside the model, model parts left in eval mode, loader peeked before fit, callback leaving eval mode, unequal batches, models nested three levels deep, gradients left over from before fit, a second fit on the same Trainer, a callback raising inside the validation pass, binary mode on un-squashed outputs.')
RULE += (" Round 6 / reach monitor: Evaluator without accuracy but with step / epoch callbacks; batches whose loss is exactly 0.0; a fit that follows a run aborted by a raising callback (metrics over its own samples only); a user-defined layer applying element-wise ops to its parameters.")
ASSUMPTIONS = ["pkbar replaced by a silent stub if unimportable (progress bar only)", "batch sizes >= 2 (Evaluator.step squeezes a batch of one sample to 0-d and "
               "rejects it; that input is outside 'any number of batches')", "losses / accuracies compared to 1e-5 relative (float32 training)"]
SHARD_TIMEOUT = {"quick": 900, "thorough": 3600}
SHARDS_PER_JOB = 1


def gen_cases(tier, seed):
    rng = gen.rng_for(seed, "c20", tier)
    n = 192 if tier == "quick" else 4000
    cases = []
    for k in range(n):
        cases.append({"epochs": int(rng.integers(1, 5)) if k % 13 != 6 else 0, "batches": int(rng.integers(1, 7)), "bs": int(rng.integers(2, 6)),
                      "val": bool(k % 2), "val_batches": int(rng.integers(1, 4)), "evaluator": bool((k // 2) % 2 or k % 3 == 0 or k % 4 == 1 or k % 9 == 4),
                      "mode": ["multi-class", "binary", "categorical"][k % 3], "opt": ["SGD", "Adam"][(k // 3) % 2],
                      "callbacks": bool(k % 4 == 1), "extra_metric": bool(k % 5 == 2), "test": bool(k % 3 == 1), "leftover": int(rng.integers(0, 2)),
                      "extra_param": bool(k % 4 == 2), "premode": [None, "sub-eval", "all-eval", None][k % 4],
                      "peek": bool(k % 5 == 1), "callback_leaves_eval": bool(k % 6 == 3), "list_loader": bool(k % 7 == 4),
                      "nested": bool(k % 3 == 0), "stale_grads": bool(k % 4 == 3),
                      "refit": bool(k % 5 == 0), "raising_callback": bool(k % 4 == 1), "binary_logits": bool(k % 6 == 1),
                      "soft_targets": bool(k % 2 == 0), "bn_tracking_off": bool(k % 7 == 2), "test_under_no_grad": bool(k % 2 == 1),
                      "no_accuracy": bool(k % 11 == 7), "zero_loss_batches": bool(k % 12 in (5, 11)), "custom_layer": bool(k % 5 == 3), "frozen_block": bool(k % 7 == 5), "mutating_step_callback": bool(k % 9 == 4 and k % 11 != 7),   # (zero-loss batches: categorical mode, no extra loss term)
                      "seed": int(rng.integers(2 ** 31))})
    return cases


def V(sig, what, **detail):
    return {"sig": sig, "what": what, "detail": detail}


def run_case(ns, ctx, c):
    sg, nn, T = ns.sg, ns.nn, ns.Tensor
    Trainer, Evaluator, DataLoader = ns.nnutils.Trainer, ns.nnutils.Evaluator, ns.nnutils.DataLoader
    rng = gen.rng_for(c["seed"], "c20")
    sg.manual_seed(c["seed"] % 2 ** 31)
    F_, K = 5, 3
    mode = c["mode"]
    out_dim = 1 if mode == "binary" else K
    layers = [nn.Linear(F_, 6), nn.BatchNorm1d(6), nn.ReLU(), nn.Dropout(0.25), nn.Linear(6, out_dim)]
    if mode == "binary" and not c.get("binary_logits"):
        layers.append(nn.Sigmoid())
    elif mode == "binary":
        # a linear unit trained with a squared error on 0/1 labels: outputs are not confined to [0, 1]; the prediction is still "output > 0.5"
        layers[-1].weight.data = layers[-1].weight.data * 8.0
    if c.get("custom_layer"):
        # a layer written by the user with the public functional API: parameters pass through element-wise ops directly
        # (non-negative gains via relu, a squashed shift, a normalised mixing matrix) - also during validation, where nothing is tracked
        class Gate(nn.Module):
            def __init__(self, n_):
                super().__init__()
                self.gain = nn.Parameter(T(np.linspace(-0.6, 1.4, n_).astype(np.float32), requires_grad=True))
                self.shift = nn.Parameter(T(np.linspace(-2.0, 2.0, n_).astype(np.float32), requires_grad=True))
                self.mix = nn.Parameter(T((np.arange(n_ * n_, dtype=np.float32).reshape(n_, n_) / (n_ * n_) - 0.4), requires_grad=True))

            def forward(self, x):
                g_ = sg.relu(self.gain) + sg.leaky_relu(self.gain, 0.1) * 0.1 + sg.selu(self.gain) * 0.05
                return (x * g_ + sg.tanh(self.shift) + sg.sigmoid(self.shift) * 0.1) @ sg.softmax(self.mix, 1) + (self.gain * self.gain).sum() * 0.0
        layers.insert(3, Gate(6))
    zero_loss = bool(c.get("zero_loss_batches")) and mode == "categorical" and not c.get("extra_param")
    if zero_loss:
        # a saturated (dead) output unit: the model answers exactly 0, so batches whose targets are all zero have a loss of exactly 0.0 -
        # they are batches like any other (one clearing of the gradients, one backward, one optimizer step each)
        layers[-1].bias.data = np.full_like(layers[-1].bias.data, -1e4)
        layers.append(nn.ReLU())
    if c.get("nested"):
        # the stochastic / stateful layers sit two and three levels below the root
        layers = [layers[0], nn.Sequential(layers[1], layers[2], nn.Sequential(layers[3]))] + layers[4:]
    frozen_block = None
    if c.get("frozen_block") and not c.get("nested"):
        # a pretrained feature extractor that is not trained further: its parameters are frozen, its mode-dependent layers follow train() / eval()
        # like every other submodule (freezing parameters is not inference mode)
        frozen_block = nn.Sequential(nn.Linear(F_, F_), nn.Dropout(0.3), nn.BatchNorm1d(F_))
        frozen_block.freeze()
        layers = [frozen_block] + layers
    model = nn.Sequential(*layers)

    def descendants(m, acc=None):
        acc = [] if acc is None else acc
        for s_ in m.submodules():
            if not any(s_ is q for q in acc):
                acc.append(s_)
                descendants(s_, acc)
        return acc
    crit = {"multi-class": nn.CrossEntropyLoss(), "binary": nn.MSELoss() if c.get("binary_logits") else nn.BCELoss(), "categorical": nn.MSELoss()}[mode]
    offset = nn.Parameter(T(np.full((2,), 0.5, dtype=np.float32), requires_grad=True))       # a learnable tensor of the loss, not part of the model
    opt_params = model.parameters() + ([offset] if c.get("extra_param") else [])
    opt = getattr(ns.optim, c["opt"])(opt_params, lr=0.05)
    if c.get("premode") == "sub-eval":
        for m_ in descendants(model):                                    # a model whose parts were left in eval mode before fit
            if isinstance(m_, (nn.Dropout, nn.BatchNorm1d)):
                m_.eval()
    elif c.get("premode") == "all-eval":
        model.eval()
    if c.get("bn_tracking_off"):
        for m_ in descendants(model):
            if isinstance(m_, nn.BatchNorm1d):
                m_.track_running_stats = False       # the estimates are frozen on the live layer: validation / test still may not write them

    def data(nb):
        n = nb * c["bs"] + c["leftover"]
        X = rng.standard_normal((n, F_)).astype(np.float32)
        yi = rng.integers(0, 2 if mode == "binary" else K, n)
        if mode == "binary":
            y = yi.astype(np.float32)
        elif mode == "multi-class":
            y = yi.astype(np.int64)
        else:
            y = np.eye(K, dtype=np.float32)[yi]
            if c.get("soft_targets"):
                y = y * 0.7 + 0.1              # label smoothing: the target class is the arg-max of the row, which is below 1
            if zero_loss:
                for b_ in range(0, nb, 2):
                    y[b_ * c["bs"]:(b_ + 1) * c["bs"]] = 0.0          # every other batch: all-zero targets, loss exactly 0.0
        return X, y

    def transform(loader, Xb, yb):
        return T(np.array(Xb)), T(np.array(yb))
    Xtr, ytr = data(c["batches"])
    train_loader = DataLoader(Xtr, ytr, c["bs"], transform=transform)
    if c.get("list_loader"):
        # any iterable of batches with a length is a loader; here the batches have unequal sizes
        sizes, pos, batches_ = [], 0, []
        while pos < len(ytr):
            sz = min(len(ytr) - pos, [c["bs"], c["bs"] + 2, 2, c["bs"] + 1][len(sizes) % 4])
            if sz < 2:
                break
            batches_.append(transform(None, Xtr[pos:pos + sz], ytr[pos:pos + sz])); sizes.append(sz); pos += sz
        train_loader = batches_
    if c.get("peek") and len(train_loader) > 1:
        xb0, yb0 = next(iter(train_loader))                 # the caller looked at one batch (e.g. to infer the input size) before fit
    val_loader = None
    if c["val"]:
        Xv, yv = data(c["val_batches"])
        val_loader = DataLoader(Xv, yv, c["bs"], transform=transform)

    events = []
    modules = [model] + descendants(model)

    def state_digest():
        h = hashlib.sha256()
        for p in model.parameters():
            h.update(np.ascontiguousarray(p.data).tobytes())
        for m in modules:
            if getattr(m, "running_mean", None) is not None:
                h.update(np.ascontiguousarray(m.running_mean.data).tobytes()); h.update(np.ascontiguousarray(m.running_var.data).tobytes())
                h.update(str(m.num_batches_tracked).encode())
        return h.hexdigest()

    def grads_digest():
        h = hashlib.sha256()
        for p_ in opt_params:
            h.update(b"-" if p_._grad is None else np.ascontiguousarray(p_._grad).tobytes())
        return h.hexdigest()

    def grad_on():
        return bool(T(1.0, requires_grad=True).requires_grad)

    def rec(kind, **info):
        events.append(dict(kind=kind, training=[bool(m.training) for m in modules], grad=grad_on(), digest=state_digest(), **info))

    # ---- attach the trace
    o_step, o_zero = opt.step, opt.zero_grad
    # (the tracing wrappers pass every argument through: an implementation is free to add optional parameters)
    opt.step = lambda *a_, **k_: (rec("step:before", gdigest=grads_digest()), o_step(*a_, **k_), rec("step"))[-1]
    opt.zero_grad = lambda *a_, **k_: (o_zero(*a_, **k_), rec("zero_grad"))[-1]
    o_train, o_eval = model.train, model.eval

    def t_train(*a_, **k_):
        r_ = o_train(*a_, **k_)
        rec("train" if model.training else "eval")
        return r_

    def t_eval(*a_, **k_):
        r_ = o_eval(*a_, **k_)
        rec("train" if model.training else "eval")
        return r_
    object.__setattr__(model, "train", t_train)
    object.__setattr__(model, "eval", t_eval)
    o_fwd = model.forward

    def fwd(x, *a_, **k_):
        rec("forward:before", n=int(x.shape[0]))
        y = o_fwd(x, *a_, **k_)
        rec("forward", out=np.array(y.data), requires_grad=bool(y.requires_grad))
        return y
    object.__setattr__(model, "forward", fwd)

    class TracedLoss:
        def __call__(self, outputs, labels):
            l = crit(outputs, labels)
            if c.get("extra_param"):
                l = l + (offset * offset).sum() * 0.1
            rec("loss", value=float(np.asarray(l.data)), labels=np.array(labels.data))
            return l
    o_backward = ns.Tensor.backward

    def bw(self_t, *a_, **k_):
        rec("backward:before", grads_clear=all(p._grad is None or not np.any(p._grad) for p in opt_params))
        r = o_backward(self_t, *a_, **k_)
        rec("backward", gdigest=grads_digest())
        return r
    ns.Tensor.backward = bw
    cb = {"train": 0, "val": 0}
    ev = None
    if c["evaluator"]:
        extra = (lambda yt, yp: [("f1", np.float64(0.25))]) if c["extra_metric"] else None
        if c.get("no_accuracy"):
            # only the caller's metrics: accuracy switched off, a per-step and a per-epoch callback (reach monitor: never driven)
            ev = Evaluator(epoch_callback=lambda yt, yp: [("f1", np.float64(0.25))], step_callback=lambda yt, yp: [("n", np.float64(len(yt)))], accuracy=False, mode=mode)
        elif c.get("mutating_step_callback"):
            # a per-step metric callback that post-processes the arrays it is handed in place (merging classes, thresholding): the epoch metrics are
            # computed from what the model predicted, not from what the callback left behind
            def step_cb(yt, yp):
                n_ = len(yt)
                try:
                    yt[...] = 0; yp[...] = 1
                except Exception:
                    pass
                return [("n", np.float64(n_))]
            ev = Evaluator(epoch_callback=extra, step_callback=step_cb, accuracy=True, mode=mode)
        else:
            ev = Evaluator(epoch_callback=extra, step_callback=None, accuracy=True, mode=mode)
    if c.get("stale_grads"):
        # the caller checked a forward/backward by hand before fit: parameters hold gradients when training starts
        xb_, yb_ = transform(None, Xtr[:c["bs"]], ytr[:c["bs"]])
        was_ = [bool(m_.training) for m_ in modules]
        model.eval()
        l_ = (model(xb_) ** 2).sum()
        o_backward(l_)
        for m_, w_ in zip(modules, was_):
            m_.training = w_
        del events[:]
    tr = Trainer(model, sg)
    tr.compile(TracedLoss(), opt, ev)
    viol = []
    try:
        start_grad = grad_on()
        def on_train(m, l):
            cb["train"] += 1
            if c.get("callback_leaves_eval"):
                m.eval()                                     # e.g. a callback that measured something in eval mode and did not switch back
        try:
            hist = tr.fit(train_loader, c["epochs"], validation_loader=val_loader,
                          on_train_epoch=on_train if (c["callbacks"] or c.get("callback_leaves_eval")) else None,
                          on_validation_epoch=(lambda m, l: cb.__setitem__("val", cb["val"] + 1)) if c["callbacks"] else None)
        except Exception as e:
            import traceback
            return {"viol": [V("fit:raises", f"fit raised {type(e).__name__} on a legal configuration", error=str(e)[:200], tb=traceback.format_exc()[-700:], config=c)],
                    "counters": {"fit_runs": 1}}
        end_grad = grad_on()
        fit_events = list(events)
        hist = {k_: list(v_) for k_, v_ in hist.items()}            # (a later fit may go on writing into the object that was returned)
        test_events = []
        test_out = None
        if c["test"]:
            del events[:]
            Xt, yt = data(2)
            tl = DataLoader(Xt, yt, c["bs"], transform=transform)
            import io, contextlib
            with contextlib.redirect_stdout(io.StringIO()):
                try:
                    if c.get("test_under_no_grad"):
                        with sg.no_grad():                 # the caller already switched tracking off: test leaves the mode as it found it
                            test_out = tr.test(tl)
                            if grad_on():
                                viol.append(V("test:gradient-mode-not-restored:called-under-no_grad",
                                              "Trainer.test called inside the caller's no_grad block returned with gradient tracking switched on"))
                    else:
                        test_out = tr.test(tl)
                except Exception as e:
                    viol.append(V("test:raises", f"Trainer.test raised {type(e).__name__}", error=str(e)[:200]))
            test_events = list(events)
            test_grad_after = grad_on()
        refit = None
        if c.get("refit"):
            # the same Trainer is fitted again (more epochs, this time without validation): its history describes this call
            del events[:]
            E2 = 1 + c["epochs"] % 2
            try:
                h2 = tr.fit(train_loader, E2)
                refit = (E2, {k_: list(v_) for k_, v_ in h2.items()})
            except Exception as e:
                viol.append(V("fit:raises:second-fit", f"a second fit on the same Trainer raised {type(e).__name__}", error=str(e)[:200]))
        after_exception = None
        if c.get("raising_callback") and c["val"]:
            # a callback stops the run by raising during a validation pass; the caller catches it and goes on: gradient mode is what it was
            class _Stop(Exception):
                pass

            def boom(*a_, **k_):
                if not grad_on():                      # i.e. while the validation pass is running
                    raise _Stop("stop requested by a callback")
                return []
            if ev is not None:
                ev.epoch_callback = boom               # the evaluator's metric callback is evaluated inside the validation pass
            kw_ = {"on_validation_epoch": boom}
            try:
                tr.fit(train_loader, 1, validation_loader=val_loader, **kw_)
                after_exception = "no-exception"
            except _Stop:
                after_exception = grad_on()
            except Exception as e:
                after_exception = "other:" + type(e).__name__
            if ev is not None and isinstance(after_exception, bool):
                # the caller handled the exception and trains again with the same objects: the metrics of the new run are computed from the new
                # run's samples only (nothing of the aborted epoch is left in the evaluator)
                ev.epoch_callback = None
                del events[:]
                try:
                    h3 = tr.fit(train_loader, 1)
                    hits3 = []
                    last_out = None
                    for e_ in events:
                        if e_["kind"] == "forward":
                            last_out = e_["out"]
                        elif e_["kind"] == "loss" and last_out is not None:
                            lab_ = e_["labels"]
                            if mode == "binary":
                                pr_ = (last_out.reshape(-1) > 0.5).astype(int); tr_ = lab_.reshape(-1).astype(int)
                            elif mode == "multi-class":
                                pr_ = last_out.argmax(axis=1); tr_ = lab_.reshape(-1).astype(int)
                            else:
                                pr_ = last_out.argmax(axis=1); tr_ = lab_.argmax(axis=1)
                            hits3.append((int((pr_ == tr_).sum()), len(tr_)))
                    if hits3 and "accuracy" in h3 and len(h3["accuracy"]) >= 1 and not c.get("no_accuracy"):
                        want3 = sum(h_ for h_, _ in hits3) / sum(n_ for _, n_ in hits3)
                        if abs(float(h3["accuracy"][-1]) - want3) > 1e-5:
                            viol.append(V(f"evaluator:{mode}:accuracy:after-aborted-run", f"accuracy of a fit that follows an aborted one is {h3['accuracy'][-1]}, "
                                          f"the fraction of correct predictions over its own samples is {want3}", mode=mode))
                    after_abort_checked = True
                except Exception as e:
                    viol.append(V("fit:raises:after-aborted-run", f"a fit that follows an aborted one raised {type(e).__name__}", error=str(e)[:200]))
    finally:
        ns.Tensor.backward = o_backward
        ns.tmod.gradient__ = True
    # ---------------------------------------------------------------- offline grammar check
    nb = len(train_loader)
    E = c["epochs"]
    steps = [e for e in fit_events if e["kind"] == "step"]
    if len(steps) != E * nb:
        viol.append(V("grammar:number-of-updates", f"{len(steps)} optimizer steps, expected epochs x len(train_loader) = {E}x{nb}", config=c))
    # role of every forward pass: a batch whose loss is back-propagated / followed by an update is a training batch, any other is an
    # evaluation batch (so the check does not depend on *which* calls put the model into its mode, only on the mode it is in)
    fidx = [i for i, e in enumerate(fit_events) if e["kind"] == "forward:before"]
    role = {}
    for n_, i0 in enumerate(fidx):
        i1 = fidx[n_ + 1] if n_ + 1 < len(fidx) else len(fit_events)
        role[i0] = "train" if any(fit_events[k_]["kind"] in ("backward:before", "step:before") for k_ in range(i0, i1)) else "eval"
    phase = None
    since_step = 0             # backward calls since the previous optimizer step
    last_bw_gdigest = None
    train_losses, val_losses = [[]], [[]]
    train_hits, val_hits = [[]], [[]]
    last_fwd = None
    block_digest = None        # state digest at the start of the current run of evaluation batches
    n_train_fw = 0
    for i, e in enumerate(fit_events):
        k = e["kind"]
        if block_digest is not None and e["digest"] != block_digest and k not in ("step", "backward", "zero_grad", "step:before", "backward:before"):
            viol.append(V("grammar:validation-changed-state", "parameters or running statistics changed during a validation phase", event=i, kind=k))
            block_digest = e["digest"]
        if k == "train":
            if not all(e["training"]):
                viol.append(V("grammar:train()-did-not-reach-all-submodules", "after model.train() some submodule is not in training mode"))
        elif k == "eval":
            if any(e["training"]):
                viol.append(V("grammar:eval()-did-not-reach-all-submodules", "after model.eval() some submodule is still in training mode"))
        elif k == "forward:before":
            phase = role[i]
            if phase == "train":
                block_digest = None
                n_train_fw += 1
                if not all(e["training"]):
                    viol.append(V("grammar:training-forward-not-in-training-mode", "a training batch was computed with (part of) the model in eval mode", event=i))
                if not e["grad"]:
                    viol.append(V("grammar:training-forward-without-gradients", "a training batch was computed with gradient tracking disabled"))
            else:
                if block_digest is None:
                    block_digest = e["digest"]
                if any(e["training"]):
                    viol.append(V("grammar:validation-forward-in-training-mode", "a validation batch was computed with (part of) the model in training mode", event=i))
                if e["grad"]:
                    viol.append(V("grammar:validation-forward-with-gradients", "a validation batch was computed with gradient tracking enabled"))
        elif k == "forward":
            last_fwd = e
            if phase == "eval" and e["requires_grad"]:
                viol.append(V("grammar:validation-output-requires-grad", "a validation output requires grad"))
        elif k == "loss":
            (train_losses if phase == "train" else val_losses)[-1].append(e["value"])
            if last_fwd is not None:
                out = last_fwd["out"]
                lab = e["labels"]
                if mode == "binary":
                    pred = (out.reshape(-1) > 0.5).astype(int); true = lab.reshape(-1).astype(int)
                elif mode == "multi-class":
                    pred = out.argmax(axis=1); true = lab.reshape(-1).astype(int)
                else:
                    pred = out.argmax(axis=1); true = lab.argmax(axis=1)
                (train_hits if phase == "train" else val_hits)[-1].append((int((pred == true).sum()), len(true)))
        elif k == "backward:before":
            # "each update is preceded by clearing the gradients": observed on the gradients themselves, whatever call cleared them
            if not e["grads_clear"]:
                viol.append(V("grammar:backward-on-uncleared-gradients",
                              "a training backward started while a parameter held by the optimizer still carried a gradient from an earlier batch", event=i))
            since_step += 1
        elif k == "backward":
            last_bw_gdigest = e["gdigest"]
        elif k == "step:before":
            if since_step == 1 and e["gdigest"] != last_bw_gdigest:
                viol.append(V("grammar:gradients-changed-between-backward-and-step",
                              "the gradients the update was computed from are not the ones the batch's backward produced (cleared or modified in between)", event=i))
            if since_step != 1:
                viol.append(V("grammar:step-not-preceded-by-exactly-one-backward",
                              f"optimizer.step ran after {since_step} backward calls since the previous step (expected exactly 1)", event=i))
            if not all(e["training"]):
                viol.append(V("grammar:step-outside-training-mode", "optimizer.step ran while the model was not in training mode"))
            since_step = 0
    # epoch boundaries: nb training batches / len(val_loader) validation batches per epoch
    def chunks(flat, n):
        flat = flat[0]
        return [flat[i * n:(i + 1) * n] for i in range(len(flat) // n)] if n else []
    train_losses, train_hits = chunks(train_losses, nb), chunks(train_hits, nb)
    nvb = len(val_loader) if val_loader is not None else 0
    val_losses, val_hits = chunks(val_losses, nvb), chunks(val_hits, nvb)
    if n_train_fw != E * nb:
        viol.append(V("grammar:number-of-training-forwards", f"{n_train_fw} training forwards, expected {E * nb}"))
    if start_grad != end_grad or not end_grad:
        viol.append(V("grammar:gradient-mode-not-restored", f"gradient mode before fit {start_grad}, after fit {end_grad}"))
    if (c["callbacks"] or c.get("callback_leaves_eval")) and (cb["train"] != E or (c["callbacks"] and c["val"] and cb["val"] != E)):
        viol.append(V("grammar:callbacks", f"callbacks called {cb} times for {E} epochs"))
    # ---------------------------------------------------------------- history
    def close(a, b):
        return abs(float(a) - float(b)) <= 1e-5 * max(1.0, abs(float(b)))
    want_keys = {"loss"}
    if c["evaluator"] and c.get("no_accuracy"):
        want_keys.add("f1")
    elif c["evaluator"]:
        want_keys.add("accuracy")
        if c["extra_metric"]:
            want_keys.add("f1")
    if c["val"]:
        want_keys |= {"val_" + k for k in list(want_keys)}
    if E == 0:
        # zero epochs: no update, nothing recorded (an empty history, or lists without entries)
        if any(len(v_) for v_ in hist.values()):
            viol.append(V("history:entries-per-epoch", f"fit(epochs=0) recorded history entries: { {k_: len(v_) for k_, v_ in hist.items()} }"))
    elif set(hist.keys()) != want_keys:
        viol.append(V("history:keys", f"history keys {sorted(hist.keys())}, expected {sorted(want_keys)}", config=c))
    for k_, v_ in hist.items():
        if len(v_) != E:
            viol.append(V("history:entries-per-epoch", f"history['{k_}'] has {len(v_)} entries for {E} epochs"))
    if "loss" in hist and len(hist["loss"]) == E and len(train_losses) >= E:
        for ep in range(E):
            if train_losses[ep] and not close(hist["loss"][ep], np.mean(train_losses[ep])):
                viol.append(V("history:epoch-loss-not-mean-of-batch-losses", f"epoch {ep}: reported loss {hist['loss'][ep]} vs mean of batch losses {np.mean(train_losses[ep])}"))
                break
    if c["val"] and "val_loss" in hist and len(hist["val_loss"]) == E:
        for ep in range(E):
            if ep < len(val_losses) and val_losses[ep] and not close(hist["val_loss"][ep], np.mean(val_losses[ep])):
                viol.append(V("history:val-loss-not-mean-of-batch-losses", f"epoch {ep}: val_loss {hist['val_loss'][ep]} vs {np.mean(val_losses[ep])}")); break
    if c["evaluator"]:
        for key_, hits in (("accuracy", train_hits), ("val_accuracy", val_hits)):
            if key_ in hist and len(hist[key_]) == E:
                for ep in range(E):
                    if ep < len(hits) and hits[ep]:
                        want = sum(h for h, _ in hits[ep]) / sum(n_ for _, n_ in hits[ep])
                        if not close(hist[key_][ep], want):
                            viol.append(V(f"evaluator:{mode}:accuracy", f"{key_} of epoch {ep} is {hist[key_][ep]}, fraction of correct predictions is {want}", mode=mode))
                            break
    # ---------------------------------------------------------------- test phase
    if c["test"] and test_events:
        d0 = None
        for e in test_events:
            if e["kind"] == "eval":
                d0 = e["digest"]
            if e["kind"] == "forward:before":
                if any(e["training"]):
                    viol.append(V("test:forward-in-training-mode", "Trainer.test computed a batch with the model in training mode")); break
                if e["grad"]:
                    viol.append(V("test:forward-with-gradients", "Trainer.test computed a batch with gradient tracking enabled")); break
            if e["kind"] in ("step", "backward", "zero_grad"):
                viol.append(V("test:updates", "Trainer.test ran an optimisation event")); break
        if d0 is not None and test_events[-1]["digest"] != d0:
            viol.append(V("test:changed-state", "Trainer.test changed parameters or running statistics"))
        if not test_grad_after:
            viol.append(V("test:gradient-mode-not-restored", "gradient mode stayed disabled after Trainer.test"))
        if test_out is not None:
            yp, yt_ = test_out
            if len(yp) != len(yt_) or len(yt_) != (len(yt) // c["bs"]) * c["bs"]:
                viol.append(V("test:sample-count", f"Trainer.test returned {len(yp)} predictions / {len(yt_)} labels for {(len(yt) // c['bs']) * c['bs']} batched samples"))
    if refit is not None:
        E2, h2 = refit
        want2 = {"loss"} | ({"accuracy"} if c["evaluator"] and not c.get("no_accuracy") else set()) | ({"f1"} if c["evaluator"] and (c["extra_metric"] or c.get("no_accuracy")) else set())
        if set(h2.keys()) != want2:
            viol.append(V("history:keys:second-fit", f"history of a second fit (no validation loader) has keys {sorted(h2.keys())}, expected {sorted(want2)}"))
        for k_, v_ in h2.items():
            if k_ in want2 and len(v_) != E2:
                viol.append(V("history:entries-per-epoch:second-fit", f"history['{k_}'] of a second fit has {len(v_)} entries for {E2} epochs")); break
    if after_exception is not None:
        counters_extra = {"exception_in_validation_runs": 1}
        if after_exception is False:
            viol.append(V("grammar:gradient-mode-not-restored:after-exception-in-validation", "gradient tracking stayed disabled after an exception left a validation pass"))
    else:
        counters_extra = {}
    seen, vv = set(), []
    for v in viol:
        if v["sig"] not in seen:
            seen.add(v["sig"]); vv.append(v)
    cfg = [c["epochs"], nb, c["val"], c["evaluator"], mode, c["opt"], c["callbacks"], c["extra_metric"], c["test"], c.get("extra_param"), c.get("premode"),
           c.get("peek"), c.get("callback_leaves_eval"), c.get("list_loader")]
    kinds = {}
    for e in fit_events + test_events:
        kinds[e["kind"]] = kinds.get(e["kind"], 0) + 1
    counters = dict({"fit_runs": 1, "trace_events": len(fit_events) + len(test_events), "second_fits": int(refit is not None)}, **counters_extra)
    for k_, v_ in kinds.items():
        counters["events:" + k_] = v_
    return {"key": json.dumps(cfg) if (E >= 2 or nb >= 2) else None, "viol": vv, "counters": counters,
            "cover": {"modes": [mode], "optimizers": [c["opt"]], "features": [f for f, b in (("validation", c["val"]), ("evaluator", c["evaluator"]), ("callbacks", c["callbacks"]),
                                                                                      ("extra-metric", c["extra_metric"]), ("test", c["test"]),
                                                                                      ("optimizer-param-outside-model", c.get("extra_param")), ("loader-peeked-before-fit", c.get("peek")),
                                                                                      ("callback-leaves-eval-mode", c.get("callback_leaves_eval")), ("list-loader-unequal-batches", c.get("list_loader")), ("premode:" + str(c.get("premode")), bool(c.get("premode")))) if b]},
            "sample": {"config": c, "trace_kinds": [e["kind"] for e in fit_events[:40]]}}


def finish(agg, tier):
    c = agg["counters"]
    return [f"zero-events:{k}" for k in ("fit_runs", "events:step", "events:backward", "events:forward", "events:loss") if not c.get(k)]
