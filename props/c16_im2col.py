"""C16 — the im2col / col2im variants agree, col2im is the exact adjoint of im2col, fold(unfold(1)) is the window multiplicity."""
import itertools, json
import numpy as np
from harness import gen, monitors
from harness.ref import nnref as R

PID = "C16"
RULE = ("geometry grid N,C<=2; H,W<=6; k,s<=3; p,d<=2 per axis with >=1 window (thorough: enumerated completely over per-axis geometries, "
        "axis pairs sampled with a fixed stride through the product; quick: seeded sample) plus random geometries up to H,W<=12; both layouts; "
        "pad values {0,-1.5}; int / tuple argument forms; empty-output geometries must raise in every variant. Oracles: bit-exact equality of the "
        "three im2col variants and the window extractor, 1e-12 equality of the three col2im variants and place_windows, adjoint identity "
        "<im2col x,y> = <x,col2im y> on random x,y, multiplicity by direct counting loops, independent loop reference for the layout, stride-"
        "bounds sanitizer on every as_strided view, crash containment. distinct key = geometry + layout + argument form; non-trivial = more "
        "than one window and kernel > 1 on some axis")
RULE += (" Added after the seeded rounds: Fortran / transposed / strided / newaxis-built inputs; the caller's column matrix and image unchanged by every variant; image sides 253..257 (thorough: 65534/65535) with padding; integer / bool images with fractional pad values (the variants must agree with each other).")
RULE += (" Round 6 / reach monitor: geometries whose column matrix is square (N*L == C*kH*kW).")
ASSUMPTIONS = ["the adjoint identity is checked with pad_value 0 (with another pad value im2col is affine, not linear)",
               "reference layout: channel-major rows (c,kh,kw), row-major blocks (lh,lw), columns of the 2-D layout ordered block-major then batch"]
SHARD_TIMEOUT = {"quick": 900, "thorough": 3600}
EXHAUSTIVE = {"thorough": "per-axis geometries (L<=6,k<=3,s<=3,p<=2,d<=2 with >=1 window) enumerated completely; the axis-pair product is sub-sampled with a fixed stride"}


def axis_geos(Lmax, kmax=3, smax=3, pmax=2, dmax=2):
    out = []
    for L in range(1, Lmax + 1):
        for k in range(1, kmax + 1):
            for d in range(1, dmax + 1):
                for p in range(0, pmax + 1):
                    for s in range(1, smax + 1):
                        if L + 2 * p - d * (k - 1) - 1 >= 0:
                            out.append((L, k, s, p, d))
    return out


def gen_cases(tier, seed):
    rng = gen.rng_for(seed, "c16", tier)
    g = axis_geos(6)
    cases = []
    if tier == "thorough":
        prod = [(a, b) for a in g for b in g]
        step = max(1, len(prod) // 60000)
        start = int(rng.integers(step))
        sel = prod[start::step]
    else:
        idx = rng.choice(len(g) * len(g), 4000, replace=False)
        sel = [(g[int(i) // len(g)], g[int(i) % len(g)]) for i in idx]
    for n, (a, b) in enumerate(sel):
        cases.append({"H": a[0], "W": b[0], "k": [a[1], b[1]], "s": [a[2], b[2]], "p": [a[3], b[3]], "d": [a[4], b[4]],
                      "N": 1 + n % 2, "C": 1 + (n // 2) % 2, "pad_value": [0, -1.5][n % 2], "form": ["tuple", "int", "mixed"][n % 3],
                      "seed": int(rng.integers(2 ** 31))})
    # coincidences of extents (the column matrix is square: N*L == C*kH*kW; as many windows as kernel cells; N == C): a swapped axis or a layout
    # guessed from the shape goes unnoticed everywhere else
    want_eq, tries = (80 if tier == "quick" else 1500), 0
    while want_eq and tries < 200000:
        tries += 1
        a, b = g[int(rng.integers(len(g)))], g[int(rng.integers(len(g)))]
        N_, C_ = int(rng.integers(1, 4)), int(rng.integers(1, 4))
        lH_ = (a[0] + 2 * a[3] - a[4] * (a[1] - 1) - 1) // a[2] + 1
        lW_ = (b[0] + 2 * b[3] - b[4] * (b[1] - 1) - 1) // b[2] + 1
        if N_ * lH_ * lW_ == C_ * a[1] * b[1] and a[1] * b[1] > 1:
            cases.append({"H": a[0], "W": b[0], "k": [a[1], b[1]], "s": [a[2], b[2]], "p": [a[3], b[3]], "d": [a[4], b[4]], "N": N_, "C": C_,
                          "pad_value": [0, -1.5][want_eq % 2], "form": "tuple", "seed": int(rng.integers(2 ** 31)), "size_class": "square-column-matrix"})
            want_eq -= 1
    # many images / channels (work split into blocks of 32 / 64 / 128 / 256: the last, partial block): small geometries, N or C just above a power of two
    small = [t for t in g if t[0] <= 3]
    for n, NC in enumerate([(65, 1), (70, 1), (129, 1), (130, 2), (257, 1), (33, 2), (1, 65), (2, 130), (1, 257)] + ([(513, 1), (1025, 1), (1, 513)] if tier == "thorough" else [])):
        a, b = small[int(rng.integers(len(small)))], small[int(rng.integers(len(small)))]
        cases.append({"H": a[0], "W": b[0], "k": [a[1], b[1]], "s": [a[2], b[2]], "p": [a[3], b[3]], "d": [a[4], b[4]], "N": NC[0], "C": NC[1],
                      "pad_value": [0, -1.5][n % 2], "form": "tuple", "seed": int(rng.integers(2 ** 31)), "size_class": "many-images-or-channels"})
    gbig = axis_geos(12, 3, 3, 2, 2)
    for n in range(100 if tier == "quick" else 3000):
        a, b = gbig[int(rng.integers(len(gbig)))], gbig[int(rng.integers(len(gbig)))]
        cases.append({"H": a[0], "W": b[0], "k": [a[1], b[1]], "s": [a[2], b[2]], "p": [a[3], b[3]], "d": [a[4], b[4]], "N": 1 + n % 2, "C": 1 + n % 3,
                      "pad_value": 0, "form": "tuple", "seed": int(rng.integers(2 ** 31))})
    # sizes around the limits of the small integer types (index arithmetic), with padding that crosses them
    edge = [(253, [3, 1], [2, 1], [2, 0]), (254, [2, 2], [3, 1], [3, 1]), (255, [3, 2], [2, 2], [4, 1]), (256, [2, 1], [2, 1], [2, 0]), (257, [3, 1], [3, 1], [3, 0]), (255, [1, 1], [1, 1], [2, 2])]
    if tier == "thorough":
        edge += [(65535, [2, 1], [8191, 1], [3, 0]), (65534, [3, 1], [9000, 1], [4, 0])]
    for n, (H_, k_, s_, p_) in enumerate(edge):
        for swap in (False, True):
            c_ = {"H": H_, "W": 2, "k": k_, "s": s_, "p": p_, "d": [1, 1], "N": 1, "C": 1 + n % 2, "pad_value": 0, "form": "tuple", "seed": int(rng.integers(2 ** 31)),
                  "size_class": "type-boundary"}
            if swap:
                c_ = dict(c_, H=2, W=H_, k=k_[::-1], s=s_[::-1], p=p_[::-1])
            cases.append(c_)
    # integer / bool images with fractional pad values: whatever one variant does with them, all variants do
    for n in range(12 if tier == "quick" else 200):
        a, b = g[int(rng.integers(len(g)))], g[int(rng.integers(len(g)))]
        cases.append({"H": a[0], "W": b[0], "k": [a[1], b[1]], "s": [a[2], b[2]], "p": [a[3], b[3]], "d": [a[4], b[4]], "N": 1 + n % 2, "C": 1 + n % 2,
                      "pad_value": [2.5, -0.5, 1, 0][n % 4], "form": "tuple", "seed": int(rng.integers(2 ** 31)), "int_image": ["int64", "int32", "bool", "uint8"][n % 4]})
    for e in ([{"H": 2, "W": 5, "k": [3, 1], "s": [1, 1], "p": [0, 0], "d": [1, 1]}, {"H": 2, "W": 2, "k": [3, 3], "s": [1, 1], "p": [0, 0], "d": [1, 1]},
               {"H": 4, "W": 4, "k": [2, 2], "s": [1, 1], "p": [0, 0], "d": [4, 1]}, {"H": 3, "W": 1, "k": [1, 2], "s": [2, 2], "p": [1, 0], "d": [1, 1]}]):
        cases.append(dict(e, N=1, C=1, pad_value=0, form="tuple", seed=1, empty=True))
    return cases


def V(sig, what, **detail):
    return {"sig": sig, "what": what, "detail": detail}


def forms(c):
    k, s, p, d = c["k"], c["s"], c["p"], c["d"]
    sq = k[0] == k[1] and s[0] == s[1] and p[0] == p[1] and d[0] == d[1]
    if c["form"] == "int" and sq:
        return k[0], s[0], p[0], d[0], "int"
    if c["form"] == "mixed" and k[0] == k[1]:
        return k[0], tuple(s), tuple(p), tuple(d), "mixed"
    return tuple(k), tuple(s), tuple(p), tuple(d), "tuple"


def run_case(ns, mon, c):
    ct = ns.conv_tools
    rng = gen.rng_for(c["seed"], "c16")
    N, C, H, W = c["N"], c["C"], c["H"], c["W"]
    k, s, p, d, form = forms(c)
    kk, ss, pp, dd = c["k"], c["s"], c["p"], c["d"]
    geo = dict(N=N, C=C, H=H, W=W, k=kk, s=ss, p=pp, d=dd, form=form, pad_value=c["pad_value"])
    counters = {"geometries": 1}
    viol = []
    if c.get("int_image"):
        xi = (rng.integers(0, 2, (N, C, H, W)).astype(bool) if c["int_image"] == "bool" else rng.integers(0, 9, (N, C, H, W)).astype(c["int_image"]))
        res = {}
        for name, f in (("im2col", lambda lay: ct.im2col(xi, k, d, s, p, c["pad_value"], as_unfold=lay)), ("im2col_v2", lambda lay: ct.im2col_v2(xi, k, d, s, p, c["pad_value"], as_unfold=lay)),
                        ("im2col_fast", lambda lay: ct.im2col_fast(xi, k, d, s, p, c["pad_value"], as_unfold=lay))):
            for lay in (False, True):
                try:
                    with np.errstate(all="ignore"):
                        res[(name, lay)] = np.array(f(lay))
                except Exception as e:
                    res[(name, lay)] = type(e).__name__
        counters["integer_image_cases"] = 1
        for lay in (False, True):
            a_ = res[("im2col", lay)]
            for other in ("im2col_v2", "im2col_fast"):
                b_ = res[(other, lay)]
                if isinstance(a_, str) and isinstance(b_, str):
                    continue
                if isinstance(a_, str) != isinstance(b_, str):
                    viol.append(V(f"variants-disagree:integer-image:im2col-vs-{other}:one-raises", f"im2col {'raises ' + a_ if isinstance(a_, str) else 'answers'}, "
                                  f"{other} {'raises ' + b_ if isinstance(b_, str) else 'answers'} for a {c['int_image']} image with pad value {c['pad_value']}", geometry=geo))
                elif a_.shape != b_.shape or a_.dtype != b_.dtype or not np.array_equal(a_, b_):
                    viol.append(V(f"variants-disagree:integer-image:im2col-vs-{other}", f"im2col and {other} return different matrices (dtype {a_.dtype} vs {b_.dtype}) "
                                  f"for a {c['int_image']} image with pad value {c['pad_value']}", geometry=geo))
        return {"viol": viol + mon.drain(), "counters": counters, "key": ("int-image", c["int_image"], json.dumps(geo, sort_keys=True)), "cover": {"input_layouts": ["integer-image"]}}
    x = rng.standard_normal((N, C, H, W))
    layout = ["C", "C", "F", "transposed-view", "strided-view"][c["seed"] % 5]
    if layout == "F":
        x = np.asfortranarray(x)
    elif layout == "transposed-view":
        x = np.ascontiguousarray(x.transpose(3, 2, 1, 0)).transpose(3, 2, 1, 0)
    elif layout == "strided-view":
        big = np.zeros((N, C, H, 2 * W)); big[..., ::2] = x; x = big[..., ::2]
    elif 1 in x.shape and c["seed"] % 2 == 0:
        # unit axes created with newaxis (x = base[..., None]): same values, stride 0 on those axes, still flagged contiguous
        x = x[tuple(0 if n_ == 1 else slice(None) for n_ in x.shape)][tuple(None if n_ == 1 else slice(None) for n_ in x.shape)]
        layout = "unit-axes-via-newaxis"
    x_snapshot = x.copy()
    in_layout = layout
    if c.get("empty"):
        for name, f in (("im2col", lambda: ct.im2col(x, k, d, s, p)), ("im2col_v2", lambda: ct.im2col_v2(x, k, d, s, p)),
                        ("im2col_fast", lambda: ct.im2col_fast(x, k, d, s, p)), ("extract_windows", lambda: ct.extract_windows(x, k, s, p, d))):
            counters["empty_geometry_probes"] = counters.get("empty_geometry_probes", 0) + 1
            try:
                r = f()
                viol.append(V(f"{name}:empty-geometry-answered", f"{name} answered a geometry without any window", geometry=geo,
                              shape=list(np.shape(r))))
            except Exception:
                pass
        return {"viol": viol + mon.drain(), "counters": counters, "key": ("empty", json.dumps(geo, sort_keys=True))}
    lH, lW = R.out_len(H, kk[0], ss[0], pp[0], dd[0]), R.out_len(W, kk[1], ss[1], pp[1], dd[1])
    L = lH * lW
    pv = c["pad_value"]
    ref_unf = R.unfold(x, kk, dd, ss, pp, pv)                     # (N, C*kH*kW, L)
    ref_2d = ref_unf.transpose(1, 2, 0).reshape(C * kk[0] * kk[1], L * N)
    outs = {}
    for name, f in (("im2col", ct.im2col), ("im2col_v2", ct.im2col_v2), ("im2col_fast", ct.im2col_fast)):
        for layout in (False, True):
            counters["im2col_calls"] = counters.get("im2col_calls", 0) + 1
            try:
                outs[(name, layout)] = np.array(f(x, k, d, s, p, pv, as_unfold=layout))
            except Exception as e:
                viol.append(V(f"{name}:raises:argform={form}", f"{name} raised {type(e).__name__} on a geometry with {L} windows", geometry=geo,
                              error=str(e)[:200]))
    for (name, layout), o in outs.items():
        ref = ref_unf if layout else ref_2d
        if o.shape != ref.shape or not np.array_equal(o, ref):
            viol.append(V(f"{name}:layout={'unfold' if layout else '2d'}:differs-from-reference",
                          f"{name} does not return the documented column matrix (shape {list(o.shape)} vs {list(ref.shape)})", geometry=geo))
    names = [n for n in ("im2col", "im2col_v2", "im2col_fast")]
    for layout in (False, True):
        got = [outs.get((n, layout)) for n in names]
        for a, b, na, nb in ((got[0], got[1], names[0], names[1]), (got[0], got[2], names[0], names[2])):
            if a is not None and b is not None and (a.shape != b.shape or not np.array_equal(a, b)):
                viol.append(V(f"variants-disagree:{na}-vs-{nb}", f"{na} and {nb} return different matrices", geometry=geo, layout=layout))
    # precomputed-indices protocol of the index-based variant
    try:
        cols_i, idx = ct.im2col(x, k, d, s, p, pv, return_indices=True)
        cols_j = ct.im2col(x, k, d, s, p, pv, col_indices=idx)
        img_i, idx2 = ct.col2im(np.array(cols_i, dtype=np.float64), (N, C, H, W), k, d, s, p, return_indices=True)
        img_j = ct.col2im(np.array(cols_i, dtype=np.float64), (N, C, H, W), k, d, s, p, col_indices=idx)
        # the caller keeps the index arrays and uses them again after col2im has seen them (one set of indices per layer, reused every step)
        cols_k = ct.im2col(x, k, d, s, p, pv, col_indices=idx)
        img_k = ct.col2im(np.array(cols_i, dtype=np.float64), (N, C, H, W), k, d, s, p, col_indices=idx)
        if not (np.array_equal(cols_k, ref_2d) and np.allclose(img_k, img_i, rtol=0, atol=1e-12)):
            viol.append(V("im2col:indices-protocol:reused-indices", "index arrays returned by im2col give other results once col2im has used them", geometry=geo))
        counters["indices_protocol_checks"] = counters.get("indices_protocol_checks", 0) + 1
        if not (np.array_equal(cols_i, ref_2d) and np.array_equal(cols_j, ref_2d) and np.allclose(img_i, img_j, rtol=0, atol=1e-12)
                and all(np.array_equal(a_, b_) for a_, b_ in zip(idx, idx2))):
            viol.append(V("im2col:indices-protocol", "im2col/col2im with return_indices / col_indices disagree with the plain calls", geometry=geo))
    except Exception as e:
        viol.append(V(f"im2col:indices-protocol:raises:argform={form}", f"return_indices / col_indices form raised {type(e).__name__}", geometry=geo, error=str(e)[:200]))
    # windows
    try:
        win = np.array(ct.extract_windows(x, k, s, p, d, pv))
        counters["extract_windows_calls"] = counters.get("extract_windows_calls", 0) + 1
        want = ref_unf.reshape(N, C, kk[0], kk[1], lH, lW).transpose(4, 5, 0, 1, 2, 3)
        if win.shape != want.shape or not np.array_equal(win, want):
            viol.append(V("extract_windows:differs-from-im2col", "sliding-window extractor disagrees with the column matrix", geometry=geo,
                          shape=list(win.shape)))
    except Exception as e:
        viol.append(V(f"extract_windows:raises:argform={form}", f"extract_windows raised {type(e).__name__}", geometry=geo, error=str(e)[:200]))
        win = None
    # col2im variants on random columns
    y_unf = rng.standard_normal((N, C * kk[0] * kk[1], L))
    y_2d = y_unf.transpose(1, 2, 0).reshape(C * kk[0] * kk[1], L * N)
    ref_img = R.fold(y_unf, (H, W), kk, dd, ss, pp)
    imgs = {}
    if not np.array_equal(x, x_snapshot):
        viol.append(V("im2col:input-modified", "the image handed to im2col / extract_windows was modified", geometry=geo))
    for name, f in (("col2im", ct.col2im), ("col2im_v2", ct.col2im_v2), ("col2im_fast", ct.col2im_fast)):
        for layout, y in ((False, y_2d), (True, y_unf)):
            counters["col2im_calls"] = counters.get("col2im_calls", 0) + 1
            try:
                yc = np.ascontiguousarray(y).copy()                  # "for all x and y": y is the caller's array and is used again afterwards
                imgs[(name, layout)] = np.array(f(yc, (N, C, H, W), k, d, s, p))
                if not np.array_equal(yc, y):
                    viol.append(V(f"{name}:layout={'unfold' if layout else '2d'}:columns-modified",
                                  f"{name} changed the column matrix it was given (a second fold / the inner product with it is no longer that of y)", geometry=geo))
            except Exception as e:
                viol.append(V(f"{name}:raises:argform={form}", f"{name} raised {type(e).__name__}", geometry=geo, error=str(e)[:200]))
        if True:
            try:
                o2 = np.array(f(y_unf.copy(), (H, W), k, d, s, p))       # fold form: output_size only
                if o2.shape != ref_img.shape or not np.allclose(o2, ref_img, rtol=0, atol=1e-12 * max(1, L)):
                    viol.append(V(f"{name}:fold-form:differs-from-reference", f"{name} with output_size=(H,W) differs from the reference fold", geometry=geo))
            except Exception as e:
                viol.append(V(f"{name}:fold-form:raises:argform={form}", f"{name}(output_size=(H,W)) raised {type(e).__name__}", geometry=geo, error=str(e)[:200]))
    for (name, layout), o in imgs.items():
        if o.shape != ref_img.shape or not np.allclose(o, ref_img, rtol=0, atol=1e-12 * max(1, kk[0] * kk[1])):
            viol.append(V(f"{name}:layout={'unfold' if layout else '2d'}:differs-from-reference",
                          f"{name} does not sum the columns back where im2col took them from", geometry=geo))
    if win is not None:
        try:
            yw = y_unf.reshape(N, C, kk[0], kk[1], lH, lW).transpose(4, 5, 0, 1, 2, 3)
            pw = np.array(ct.place_windows(np.ascontiguousarray(yw), (N, C, H, W), k, s, p, d))
            counters["place_windows_calls"] = counters.get("place_windows_calls", 0) + 1
            if pw.shape != ref_img.shape or not np.allclose(pw, ref_img, rtol=0, atol=1e-12 * max(1, kk[0] * kk[1])):
                viol.append(V("place_windows:differs-from-col2im", "window placement disagrees with col2im", geometry=geo))
        except Exception as e:
            viol.append(V(f"place_windows:raises:argform={form}", f"place_windows raised {type(e).__name__}", geometry=geo, error=str(e)[:200]))
    # results are values: a later call of the same routine with the same shapes (other contents) does not rewrite an earlier result
    for name in ("col2im", "col2im_v2", "col2im_fast", "place_windows", "im2col", "im2col_v2", "im2col_fast", "extract_windows"):
        try:
            f = getattr(ct, name)
            if name.startswith("col2im"):
                call_ = lambda v_, f=f: f(np.ascontiguousarray(v_), (N, C, H, W), k, d, s, p)
                a1, a2 = y_unf, y_unf[::-1] * 0.5 + 1.0
            elif name == "place_windows":
                if win is None:
                    continue
                call_ = lambda v_, f=f: f(np.ascontiguousarray(v_), (N, C, H, W), k, s, p, d)
                a1 = y_unf.reshape(N, C, kk[0], kk[1], lH, lW).transpose(4, 5, 0, 1, 2, 3); a2 = a1 * -0.5 + 2.0
            elif name == "extract_windows":
                call_ = lambda v_, f=f: f(v_, k, s, p, d, pv)
                a1, a2 = x_snapshot, x_snapshot * -0.5 + 2.0
            else:
                call_ = lambda v_, f=f: f(v_, k, d, s, p, pv, as_unfold=True)
                a1, a2 = x_snapshot, x_snapshot * -0.5 + 2.0
            r1 = call_(a1.copy())
            keep = np.array(r1, copy=True)
            r2 = call_(a2.copy())
            counters["result_stability_checks"] = counters.get("result_stability_checks", 0) + 1
            if np.shape(r1) != keep.shape or not np.array_equal(np.asarray(r1), keep, equal_nan=True):
                viol.append(V(f"{name}:earlier-result-rewritten-by-later-call", f"the array {name} returned changed when {name} was called again on other values of the same shape", geometry=geo))
        except Exception:
            pass
    # adjointness (pad value 0) for every variant pair, both layouts
    for iname, cname in (("im2col", "col2im"), ("im2col_v2", "col2im_v2"), ("im2col_fast", "col2im_fast")):
        for layout, y in ((False, y_2d), (True, y_unf)):
            try:
                cols = getattr(ct, iname)(x, k, d, s, p, 0, as_unfold=layout)
                img = getattr(ct, cname)(y.copy(), (N, C, H, W), k, d, s, p)
            except Exception:
                continue
            if np.shape(cols) != np.shape(y) or np.shape(img) != np.shape(x):
                viol.append(V(f"adjoint:{iname}-{cname}:shape", f"{iname} returns shape {list(np.shape(cols))} where the column matrix has shape {list(np.shape(y))} "
                              f"(or {cname} an image of shape {list(np.shape(img))})", geometry=geo, layout=layout))
                continue
            lhs, rhs = float(np.sum(cols * y)), float(np.sum(x * img))
            counters["adjoint_identities"] = counters.get("adjoint_identities", 0) + 1
            if abs(lhs - rhs) > 1e-10 * max(1.0, abs(lhs), float(np.sum(np.abs(cols * y)))):
                viol.append(V(f"adjoint:{iname}-{cname}", f"<{iname}(x),y> = {lhs!r} but <x,{cname}(y)> = {rhs!r}", geometry=geo, layout=layout))
    # multiplicity
    mult = np.zeros((H + 2 * pp[0], W + 2 * pp[1]))
    for i in range(lH):
        for j in range(lW):
            for a in range(kk[0]):
                for b in range(kk[1]):
                    mult[i * ss[0] + a * dd[0], j * ss[1] + b * dd[1]] += 1
    mult = mult[pp[0]:pp[0] + H, pp[1]:pp[1] + W]
    try:
        ones = np.ones((N, C, H, W))
        fu = np.array(ct.col2im_fast(ct.im2col_fast(ones, k, d, s, p, 0, as_unfold=True), (N, C, H, W), k, d, s, p))
        counters["multiplicity_checks"] = counters.get("multiplicity_checks", 0) + 1
        if fu.shape != (N, C, H, W) or not np.array_equal(fu, np.broadcast_to(mult, (N, C, H, W))):
            viol.append(V("fold-unfold:multiplicity", "folding an unfolded image of ones does not give the number of windows covering each pixel", geometry=geo))
    except Exception:
        pass
    viol += mon.drain()
    seen, vv = set(), []
    for v in viol:
        if v["sig"] not in seen:
            seen.add(v["sig"]); vv.append(v)
    nontrivial = L > 1 and max(kk) > 1
    return {"key": json.dumps(geo, sort_keys=True) if nontrivial else None, "viol": vv, "counters": counters,
            "cover": {"argforms": [form], "input_layouts": [in_layout], "features": [f for f, b in (("dilated", max(dd) > 1), ("padded", max(pp) > 0), ("strided", max(ss) > 1),
                                                                      ("nonsquare", kk[0] != kk[1]), ("pad_value!=0", pv != 0), ("stride>kernel", ss[0] > kk[0] or ss[1] > kk[1])) if b]}}


def setup(ns, tier, seed):
    mon = monitors.Monitors(ns)
    mon.install_stride_sanitizer()
    return mon


def teardown(ns, mon):
    return {"counters": mon.take_counters()}


def finish(agg, tier):
    c = agg["counters"]
    return [f"zero-events:{k}" for k in ("im2col_calls", "col2im_calls", "adjoint_identities", "multiplicity_checks",
                                         "extract_windows_calls", "place_windows_calls", "empty_geometry_probes") if not c.get(k)]
