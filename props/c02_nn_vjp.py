"""C02 — backward of every nn op / layer / loss is the exact VJP (FD oracle through the library's own forward)."""
import copy, json
import numpy as np
from harness import gen, fd, monitors, nncommon, nncatalog
from harness.nncatalog import NNOPS

PID = "C02"
RULE = ("nn-op catalogue x {functional, Module} forms x geometry / mode / reduction grids x value class x upstream-gradient class; every "
        "differentiable input (data, weight, bias, gamma/beta, both MSE arguments) is compared with the FD VJP of the library's own float64 "
        "forward (affine ops exact, others Richardson); relu-family zeros and pooling ties judged by subgradient conditions; dropout mask "
        "pinned by re-seeding; operands stored contiguously or as strided / transposed / shared-base views; single-requiring-input patterns; saturating magnitudes (|x|<=800) for the exp-based ops; batch-norm outputs differentiated after a later training-mode call on the same buffers; distinct key = (op, form, args, value class, g class); non-trivial = output has >1 element or a reduced "
        "loss, and g is not all-ones")
RULE += (' Added after the seeded rounds: the same op called a second time on other values before the backward of the first (`twice`), second backward doubles, hard labels as integer / bool tensors, batch-norm inference forward followed by a training forward on the same statistics.')
ASSUMPTIONS = ["reference derivative = derivative of the library's own forward (values decided by C06)",
               "FD tolerance 1e-9 (affine) / 1e-6 (Richardson) relative to max(1,|phi|,|grad|); disagreeing FD estimates => inconclusive sample",
               "operands with more than 64 elements are checked on 24 seeded coordinates plus 4 random directions",
               "pooling ties: necessary subgradient conditions (support inside arg-max sets, mass conservation, sign) rather than full feasibility"]
EXCLUDED_DOMAIN = ["BCE probabilities outside [0.05,0.95] (guard-constant regime)", "relu-family within 0.2 of 0 for FD cases (exact zeros are judged separately)"]
SHARD_TIMEOUT = {"quick": 900, "thorough": 3600}
KINK_OPS = ("relu", "leaky_relu", "selu")
POOL_MAX = ("max_pool1d", "max_pool2d")


def gen_cases(tier, seed):
    cases = nncommon.build_cases(tier, seed, "c02", budget={"quick": 280, "thorough": 4000}[tier])
    out = []
    for c in cases:
        n = c["n"]
        c["gclass"] = gen.G_CLASSES[n % 4] if n % 9 else "ones"
        c["storage"] = ["plain", "plain", "strided", "transposed", "shared-base"][n % 5]
        c["single_req"] = (n // 3) % 4 if (c["form"] == "functional" and n % 3 == 2) else None
        c["twice"] = bool(n % 4 == 1 and c["op"] != "dropout")
        if c["op"] in ("bce_loss", "bce_with_logits", "mse_loss") and n % 5 == 3:
            c["int_operands"] = {"1": ["int64", "bool", "int32", "uint8"][n % 4]}          # hard 0/1 labels as an integer / bool tensor
        out.append(c)
        if c["op"] in ("sigmoid", "tanh", "selu", "softmax", "log_softmax", "bce_with_logits", "cross_entropy") and n % 3 == 1:
            c3 = copy.deepcopy(c); c3["a"]["vclass"] = "huge"; c3["storage"] = "plain"      # saturating magnitudes (|x| up to 800)
            out.append(c3)
        if c["op"] in KINK_OPS and n % 2 == 0:
            c2 = copy.deepcopy(c); c2["a"]["vclass"] = "withzeros"; c2["kink"] = True
            out.append(c2)
        if c["op"] in POOL_MAX and n % 3 == 0:
            c2 = copy.deepcopy(c); c2["a"]["vclass"] = "intvalued"; c2["kink"] = True
            out.append(c2)
    return out


def V(sig, what, **detail):
    return {"sig": sig, "what": what, "detail": detail}


def slopes(opname, a):
    if opname == "relu":
        return 0.0, 1.0
    if opname == "leaky_relu":
        return a["slope"], 1.0
    return nncatalog.R.SELU_SCALE * nncatalog.R.SELU_ALPHA, nncatalog.R.SELU_SCALE


def run_case(ns, mon, case):
    op = NNOPS[case["op"]]
    a = case["a"]
    argclass = op.argclass(a)
    sigbase = f"{op.name}.{case['form']}:{argclass}"
    counters = {f"cases:{op.name}": 1}
    specs, xs = nncommon.materialize(case)
    req = [sp["diff"] for sp in specs]
    dl = [i for i, r_ in enumerate(req) if r_]
    if case.get("single_req") is not None and len(dl) > 1:
        keep = dl[case["single_req"] % len(dl)]             # only one differentiable input requires grad
        req = [i == keep for i in range(len(req))]
        specs = [dict(sp, diff=req[i]) for i, sp in enumerate(specs)]
    try:
        ts, out = nncommon.forward(ns, case, xs, req=req)
    except Exception:
        mon.drain()
        return {"counters": dict(counters, forward_rejected=1), "cover": {"rejected": [sigbase]}}
    viol = []
    if out.dtype != np.float64:
        counters["forward_left_float64"] = 1
    if not out.requires_grad:
        viol.append(V(sigbase + ":result-does-not-require-grad", "output of an op on inputs requiring grad does not require grad"))
        return {"viol": viol + mon.drain(), "counters": counters}
    rng = gen.rng_for(case["seed"], "g")
    g = gen.upstream(rng, out.shape, case["gclass"])
    try:
        out.backward(ns.Tensor(g))
    except Exception as e:
        import traceback
        viol.append(V(sigbase + ":backward-raises", f"forward accepted but backward raised {type(e).__name__}", error=str(e)[:200],
                      tb=traceback.format_exc()[-600:], args=a))
        return {"viol": viol + mon.drain(), "counters": counters}
    mode = op.mode(a)
    ninc = 0
    for i, sp in enumerate(specs):
        if not sp["diff"]:
            continue
        gt = ts[i].grad
        if gt is None:
            viol.append(V(sigbase + f":{sp['name']}:no-gradient", f"differentiable input '{sp['name']}' received no gradient"))
            continue
        got = np.asarray(gt.data, dtype=np.float64)
        if got.shape != xs[i].shape:
            viol.append(V(sigbase + f":{sp['name']}:grad-shape", "gradient shape differs from the input's", got=list(got.shape), want=list(xs[i].shape)))
            continue
        if case.get("kink") and i == 0:
            counters["subgradient_judgements"] = counters.get("subgradient_judgements", 0) + 1
            x = xs[0]
            if op.name in KINK_OPS:
                lo, hi = slopes(op.name, a)
                sm, sM = min(lo, hi), max(lo, hi)
                z = x == 0
                # away from zero: exact derivative; at zero: anything between the one-sided slopes
                dpos = hi
                with np.errstate(over="ignore"):
                    dneg = lo if op.name != "selu" else nncatalog.R.SELU_SCALE * nncatalog.R.SELU_ALPHA * np.exp(np.minimum(x, 0))
                exact = np.where(x > 0, dpos, dneg) * g
                bad_nz = ~z & (np.abs(got - exact) > 1e-9 * (1 + np.abs(exact)))
                lo_b, hi_b = np.minimum(sm * g, sM * g), np.maximum(sm * g, sM * g)
                bad_z = z & ((got < lo_b - 1e-12) | (got > hi_b + 1e-12))
                if bad_nz.any() or bad_z.any():
                    viol.append(V(sigbase + ":invalid-subgradient", "gradient at/around the kink is not a valid (sub)gradient",
                                  at_zero=bool(bad_z.any()), x=x.tolist() if x.size < 40 else None))
            else:
                # pooling ties: support within per-window arg-max sets, mass conservation, sign
                why = pool_tie_conditions(case, x, got, g)
                if why:
                    viol.append(V(sigbase + ":invalid-subgradient", "max-pool gradient at ties violates a subgradient condition: " + why, args=a))
            continue

        def phi(xv, i=i):
            xs2 = list(xs)
            xs2[i] = xv
            with ns.sg.no_grad():
                _, o2 = nncommon.forward(ns, case, xs2)
            return float(np.sum(np.asarray(o2.data, dtype=np.float64) * g))
        coords = None
        if xs[i].size > 64:
            r2 = gen.rng_for(case["seed"], "coords", i)
            flat = r2.choice(xs[i].size, 24, replace=False)
            coords = [tuple(int(v) for v in np.unravel_index(int(f), xs[i].shape)) for f in flat]
        want, ok, scale = fd.fd_grad(phi, xs[i], mode, coords=coords)
        nbad, nchk, nin, worst, first = fd.compare(got, want, ok, mode, scale)
        if coords is not None:
            for (gd, wd, okd) in fd.directional(phi, xs[i], got, gen.rng_for(case["seed"], "dir", i), mode=mode):
                nchk += 1
                if not okd:
                    nin += 1
                elif not (abs(gd - wd) <= (1e-9 if mode == "affine" else 1e-6) * (scale + abs(wd) + float(np.max(np.abs(got))))):
                    nbad += 1
                    first = first or "directional"
        counters["fd_coords_checked"] = counters.get("fd_coords_checked", 0) + nchk
        counters[f"fd_checked:{op.name}"] = counters.get(f"fd_checked:{op.name}", 0) + nchk
        counters[f"fd_inconclusive:{op.name}"] = counters.get(f"fd_inconclusive:{op.name}", 0) + nin
        ninc += nin
        if nbad:
            if out.dtype != np.float64:
                ninc += nbad
                counters[f"fd_inconclusive:{op.name}"] += nbad
            else:
                viol.append(V(sigbase + f":{sp['name']}:wrong-gradient", f"gradient of '{sp['name']}' differs from the finite-difference VJP (worst rel {worst:.3g})",
                              index=first, args=a, got=got.tolist() if got.size <= 32 else None,
                              want=np.where(np.isnan(want), None, want).tolist() if want.size <= 32 else None))
    # a second backward over the same recorded op: whatever the op saved for backward must still be intact, so gradients double
    if not viol and not case.get("kink"):
        first = [None if (not sp["diff"] or ts[i].grad is None) else np.array(ts[i].grad.data, dtype=np.float64) for i, sp in enumerate(specs)]
        try:
            out.backward(ns.Tensor(g))
            counters["second_backward_checks"] = 1
            for i, f_ in enumerate(first):
                if f_ is None:
                    continue
                g2 = np.asarray(ts[i].grad.data, dtype=np.float64)
                if not np.allclose(g2, 2 * f_, rtol=1e-9, atol=1e-9 * max(1.0, float(np.max(np.abs(f_))) if f_.size else 1.0)):
                    viol.append(V(sigbase + f":{specs[i]['name']}:second-backward-not-double", f"after a second backward over the same op the gradient of '{specs[i]['name']}' is not twice the first", args=a))
                    break
        except Exception as e:
            viol.append(V(sigbase + ":second-backward-raises", f"a second backward over the same op raised {type(e).__name__}", error=str(e)[:200], args=a))
    mviol = []
    for v in mon.drain():
        if v["sig"].startswith("grad-dtype:") or v["sig"].startswith("release:"):
            counters["routed_to_other_property"] = counters.get("routed_to_other_property", 0) + 1
        else:
            mviol.append(v)
    nontrivial = (out.data.size > 1 or a.get("reduction") in ("mean", "sum")) and case["gclass"] != "ones"
    key = (op.name, case["form"], json.dumps(a, sort_keys=True), case["gclass"], bool(case.get("kink")), case.get("storage"), case.get("single_req"), bool(case.get("twice"))) if nontrivial else None
    return {"key": key, "viol": viol + mviol, "counters": counters, "inconclusive": ninc,
            "cover": {"ops": [op.name], "forms": [f"{op.name}.{case['form']}"], "argclasses": [f"{op.name}:{argclass}"], "fd_modes": [mode],
                      "gclasses": [case["gclass"]], "storage": [case.get("storage", "plain")], "req_patterns": ["single" if case.get("single_req") is not None else "all"], "diff_inputs": [f"{op.name}:{sp['name']}" for sp in specs if sp["diff"]]}}


def pool_tie_conditions(case, x, grad, g):
    R = nncatalog.R
    a = case["a"]
    nd = x.ndim - 2
    k = R.pair(a["kernel"], nd)
    s = R.pair(a["stride"] if a["stride"] is not None else a["kernel"], nd)
    p, d = R.pair(a["padding"], nd), R.pair(a["dilation"], nd)
    outs = [R.out_len(x.shape[2 + i], k[i], s[i], p[i], d[i]) for i in range(nd)]
    xp = R.pad_nd(x, p, -np.inf)
    allowed = np.zeros(xp.shape, dtype=bool)
    mass = 0.0      # upstream gradient of the windows whose maximum is a real element (a window made of padding only is constant)
    for n in range(x.shape[0]):
        for c in range(x.shape[1]):
            for pos in np.ndindex(*outs):
                idxs = [(n, c) + tuple(pos[i] * s[i] + kk[i] * d[i] for i in range(nd)) for kk in np.ndindex(*k)]
                m = max(xp[ix] for ix in idxs)
                if np.isfinite(m):
                    mass += float(g[(n, c) + pos])
                for ix in idxs:
                    if xp[ix] == m:
                        allowed[ix] = True
    sl = tuple([slice(None), slice(None)] + [slice(p[i], p[i] + x.shape[2 + i]) for i in range(nd)])
    allowed = allowed[sl]
    tol = 1e-12 * max(1.0, float(np.max(np.abs(g))))
    if np.any(np.abs(grad[~allowed]) > tol):
        return "gradient on an element that is the maximum of no window"
    if abs(grad.sum() - mass) > 1e-9 * max(1.0, float(np.abs(g).sum())):
        return "total gradient mass differs from the total upstream gradient"
    if np.all(g >= 0) and np.any(grad < -tol):
        return "negative gradient for a non-negative upstream gradient"
    return None


def setup(ns, tier, seed):
    mon = monitors.Monitors(ns)
    mon.install_kernel_sanitizer()
    mon.install_stride_sanitizer()
    mon.install_backward_trace()
    return mon


def teardown(ns, mon):
    return {"counters": mon.take_counters()}


def finish(agg, tier):
    r = []
    c = agg["counters"]
    if not c.get("fd_coords_checked"):
        r.append("zero-events:fd")
    if not c.get("backward_sweeps") or not c.get("grad_fn_invocations"):
        r.append("zero-events:backward-trace")
    if not c.get("subgradient_judgements"):
        r.append("zero-events:subgradient")
    for k, v in c.items():
        if k.startswith("fd_inconclusive:"):
            opn = k.split(":", 1)[1]
            tot = v + c.get(f"fd_checked:{opn}", 0)
            if tot and v / tot > 0.05:
                r.append(f"too-many-inconclusive:{opn}:{v}/{tot}")
    return r
