"""C03 — chain rule on arbitrary DAGs: FD on the whole program, construction-order metamorphic check, BackwardTrace."""
import json
import numpy as np
from harness import gen, fd, monitors, programs

PID = "C03"
RULE = ("random DAG programs (3-40 instructions, 1-6 leaves, any subset requiring grad) over ~40 tensor/nn ops, biased towards fan-out>1, the "
        "same tensor twice in one op, diamonds, multi-output ops partly consumed and unused branches; every leaf gradient is compared with the "
        "FD derivative of the whole program (full for <=64 elements, 24 coordinates + 4 directions beyond); the same DAG is rebuilt under k "
        "random linear extensions of its dependency order and leaf gradients must agree to 1e-10; a second backward over the same graph must double every leaf gradient; BackwardTrace checks exactly-once "
        "invocation and consumer-before-operand order in every sweep; distinct key = structural hash (ops + wiring); non-trivial = at least "
        "one value consumed more than once or one op using a tensor twice, and >= 5 instructions")
RULE += (' Added after the seeded rounds: layer templates whose parameters are program leaves (bias exactly zero half of the time), conv1d with bias, dilated constant convolutions, inference-then-training batch norm, cross-entropy, operand lists cleared after concat/stack, a constant advanced by += / *= after the op that used it.')
RULE += (" Round 6 / reach monitor: four backward sweeps over one graph with one and the same upstream-gradient tensor (k-th sweep = k times the first); functional batch norm with training=False and no statistics inside programs.")
ASSUMPTIONS = ["FD reference differentiates the library's own float64 forward of the whole program",
               "piecewise-linear ops (relu, max) are only generated with a 0.05 margin from their kinks; ties are C01/C02's business",
               "values are kept below 50 in magnitude by construction so that FD is well conditioned"]
SHARD_TIMEOUT = {"quick": 900, "thorough": 3600}


def gen_cases(tier, seed):
    rng = gen.rng_for(seed, "c03", tier)
    n = 800 if tier == "quick" else 12000
    cases = []
    for k in range(n):
        cases.append({"pseed": int(rng.integers(2 ** 31)), "n_instr": int(rng.integers(3, 41)), "n_leaves": int(rng.integers(1, 7)),
                      "kinks": k % 5 == 4, "big": k % 17 == 16, "orders": 3 if tier == "quick" else 4})
    return cases


def V(sig, what, **detail):
    return {"sig": sig, "what": what, "detail": detail}


def run_case(ns, mon, case):
    rng = gen.rng_for(case["pseed"], "prog")
    prog, leaf_vals = programs.generate(rng, case["n_instr"], case["n_leaves"], allow_kinks=case["kinks"], big=case["big"])
    prog = programs.fix_args(json.loads(json.dumps(prog)))
    xs = [np.array(v, dtype=np.float64).reshape(tuple(l["shape"])) for v, l in zip(leaf_vals, prog["leaves"])]
    st = programs.stats(prog)
    counters = {"programs": 1}
    viol = []

    def build(order=None, xs_=None, req=True):
        ts = [ns.Tensor((xs_ or xs)[i].copy(), requires_grad=bool(l["req"] and req)) for i, l in enumerate(prog["leaves"])]
        vals = programs.run_library(ns, prog, ts, order)
        return ts, vals[prog["final"]]
    try:
        ts, out = build()
    except Exception as e:
        # whether a forward call is accepted is C05/C06's business; here it only reduces what was observed
        mon.drain()
        return {"counters": dict(counters, forward_rejected=1), "note": f"forward rejected: {type(e).__name__}: {str(e)[:80]}"}
    if not out.requires_grad:
        mon.drain()
        return {"counters": dict(counters, final_does_not_require_grad=1)}
    if out.dtype != np.float64:
        counters["forward_left_float64"] = 1
    g = gen.upstream(rng, out.shape, "normal") if out.shape else np.array(float(rng.uniform(0.5, 2.0)))
    try:
        g_t = ns.Tensor(np.array(g, dtype=np.float64))           # one upstream-gradient tensor, handed to every sweep over this graph
        if case["pseed"] % 4 == 1:
            # a first attempt with a seed of the wrong shape is refused; the graph is then differentiated as if nothing had happened
            try:
                out.backward(ns.Tensor(np.ones((2,) + tuple(out.shape) if out.shape else (3,))))
                counters["wrong_shape_seed_accepted"] = 1
                mon.drain()
                return {"counters": counters}
            except Exception:
                counters["refused_backward_first"] = 1
            mon.drain()
        out.backward(g_t)
    except Exception as e:
        import traceback
        return {"viol": [V("program:backward-raises", f"backward raised {type(e).__name__} on a program whose forward was accepted",
                           error=str(e)[:200], tb=traceback.format_exc()[-600:], program=prog)] + mon.drain(), "counters": counters}
    grads = [None if t.grad is None else np.array(t.grad.data, dtype=np.float64) for t in ts]
    mode = "richardson"
    ninc = 0
    for i, l in enumerate(prog["leaves"]):
        if not l["req"]:
            if ts[i]._grad is not None:
                viol.append(V("program:grad-on-leaf-not-requiring-grad", "a leaf that does not require grad acquired a gradient", program=prog))
            continue
        if grads[i] is None:
            # legitimately absent only if the leaf is unreachable from the final value
            grads[i] = np.zeros_like(xs[i])

        def phi(xv, i=i):
            xs2 = list(xs); xs2[i] = xv
            with ns.sg.no_grad():
                _, o2 = build(xs_=xs2, req=False)
            return float(np.sum(np.asarray(o2.data, dtype=np.float64) * g))
        coords = None
        if xs[i].size > 64:
            flat = gen.rng_for(case["pseed"], "coords", i).choice(xs[i].size, 24, replace=False)
            coords = [tuple(int(v) for v in np.unravel_index(int(f), xs[i].shape)) for f in flat]
        want, ok, scale = fd.fd_grad(phi, xs[i], mode, coords=coords)
        nbad, nchk, nin, worst, first = fd.compare(grads[i], want, ok, mode, scale)
        if coords is not None:
            for (gd, wd, okd) in fd.directional(phi, xs[i], grads[i], gen.rng_for(case["pseed"], "dir", i)):
                nchk += 1
                if not okd:
                    nin += 1
                elif not (abs(gd - wd) <= 1e-6 * (scale + abs(wd) + float(np.max(np.abs(grads[i]))))):
                    nbad += 1
        counters["fd_coords_checked"] = counters.get("fd_coords_checked", 0) + nchk
        counters["fd_inconclusive"] = counters.get("fd_inconclusive", 0) + nin
        ninc += nin
        if nbad and out.dtype == np.float64:
            viol.append(V("program:leaf-gradient-differs-from-whole-program-derivative",
                          f"leaf {i}: gradient differs from the FD derivative of the composed function (worst rel {worst:.3g})",
                          leaf=i, index=first, program=prog, leaf_values=[x.tolist() for x in xs] if sum(x.size for x in xs) < 80 else None))
    # a second sweep over the same graph: every recorded op contributes exactly once per call, so leaf gradients double
    try:
        for sweep in (2, 3, 4):
            out.backward(g_t)                    # the same tensor object again: the caller's upstream gradient is read, never kept or changed
            counters["second_sweeps"] = 1
            counters["repeated_sweeps_same_upstream_tensor"] = counters.get("repeated_sweeps_same_upstream_tensor", 0) + 1
            bad_ = False
            for i, l in enumerate(prog["leaves"]):
                if l["req"] and ts[i].grad is not None:
                    g2 = np.asarray(ts[i].grad.data, dtype=np.float64)
                    if not np.allclose(g2, sweep * grads[i], rtol=1e-9, atol=1e-9 * max(1.0, float(np.max(np.abs(grads[i]))) if grads[i].size else 1.0)):
                        viol.append(V("program:second-backward-does-not-double-leaf-gradients" if sweep == 2 else "program:repeated-backward-same-upstream-tensor:not-k-times",
                                      f"after backward call number {sweep} on the same graph (same upstream-gradient tensor) a leaf gradient is not {sweep} times the first",
                                      leaf=i, program=prog))
                        bad_ = True
                        break
            if bad_:
                break
        if not np.array_equal(np.asarray(g_t.data, dtype=np.float64), np.asarray(g, dtype=np.float64)):
            counters["upstream_tensor_changed_by_backward"] = 1          # (C11's statement; only counted here)
    except Exception as e:
        viol.append(V("program:second-backward-raises", f"a second backward call on the same graph raised {type(e).__name__}", error=str(e)[:200], program=prog))
    # construction-order metamorphism
    for k in range(case["orders"]):
        order = programs.random_order(prog, gen.rng_for(case["pseed"], "order", k))
        try:
            ts2, out2 = build(order=order)
            out2.backward(ns.Tensor(np.asarray(g, dtype=np.float64)))
        except Exception as e:
            viol.append(V("program:construction-order:raises", f"same DAG built in another order raised {type(e).__name__}", order=order, program=prog))
            break
        counters["orders_checked"] = counters.get("orders_checked", 0) + 1
        for i, l in enumerate(prog["leaves"]):
            if not l["req"]:
                continue
            g2 = np.zeros_like(xs[i]) if ts2[i].grad is None else np.asarray(ts2[i].grad.data, dtype=np.float64)
            if not np.allclose(g2, grads[i], rtol=1e-10, atol=1e-10 * max(1.0, float(np.max(np.abs(grads[i]))) if grads[i].size else 1.0)):
                viol.append(V("program:construction-order:gradient-differs", "leaf gradient depends on the order in which independent branches were built",
                              leaf=i, order=order, program=prog))
                break
    viol += [v for v in mon.drain() if not v["sig"].startswith(("grad-dtype", "release"))]
    nontrivial = (st["max_fanout"] > 1 or st["same_tensor_twice"] > 0) and st["n_instr"] >= 5
    key = programs.structural_hash(prog) if nontrivial else None
    cov = {"ops": sorted({i["op"] for i in prog["instrs"]}), "depth_bucket": [f"instr<{b}" for b in (10, 20, 40, 100) if st["n_instr"] < b][:1],
           "structures": [k for k, v in (("fanout>1", st["max_fanout"] > 1), ("fanout>3", st["max_fanout"] > 3), ("same-tensor-twice", st["same_tensor_twice"] > 0),
                                        ("multi-output", st["multi_output"] > 0), ("leaf-without-grad", st["leaves_no_grad"] > 0),
                                        ("kinked-ops", case["kinks"]), ("big-leaves", case["big"])) if v]}
    return {"key": key, "viol": viol, "counters": counters, "inconclusive": ninc, "cover": cov,
            "sample": {"case": case, "stats": st, "program_ops": [i["op"] for i in prog["instrs"]][:40]}}


def setup(ns, tier, seed):
    mon = monitors.Monitors(ns)
    mon.install_backward_trace()
    return mon


def teardown(ns, mon):
    return {"counters": mon.take_counters()}


def finish(agg, tier):
    c = agg["counters"]
    r = [f"zero-events:{k}" for k in ("fd_coords_checked", "orders_checked", "second_sweeps", "backward_sweeps", "grad_fn_invocations", "order_pairs_checked") if not c.get(k)]
    tot = c.get("fd_coords_checked", 0) + c.get("fd_inconclusive", 0)
    if c.get("forward_rejected", 0) > 0.02 * max(1, c.get("programs", 0)):
        r.append(f"too-many-programs-rejected:{c.get('forward_rejected')}/{c.get('programs')}")
    if tot and c.get("fd_inconclusive", 0) / tot > 0.05:
        r.append(f"too-many-inconclusive:{c.get('fd_inconclusive')}/{tot}")
    return r
