"""C10 — results and gradients keep the operand's floating dtype and exact shape (direct contracts + GradShapeDtypeMonitor)."""
import copy, json, math
import numpy as np
from harness import gen, monitors, catalog, nncommon, nncatalog
from harness.catalog import OPS
from harness.nncatalog import NNOPS

PID = "C10"
RULE = ("every op form of the tensor catalogue and the nn catalogue (functional and Module forms; layer parameters cast to the operand dtype, or "
        "left at their float32 default for the mixed case) x operand dtype {float32,float64} x Python-scalar operands x every broadcasting "
        "pattern x result ranks incl. 0-d (full reductions, element indexing, reduced losses) x upstream gradient dtype {same, other}; result "
        "dtype must equal the operand dtype, the float32 result must agree with the float64 result to single precision, and after backward the "
        "whole graph is walked: every .grad must have its tensor's shape and dtype; stateful layers are run through train -> eval histories and their outputs, running statistics and gradients must keep the layer dtype. distinct key = (op, form, argclass, shape class, dtype, g "
        "dtype); non-trivial = the case has broadcasting, a 0-d result, a scalar operand or a g of the other dtype")
RULE += (' Added after the seeded rounds: float32 gradients compared with the float64 gradients of the same function (2 % of the max-norm); optimizers in the stateful dtype histories; reset paths after the layer was used at float32 and then switched to float64; non-contiguous operands and saturating values.')
RULE += (" Round 6 / reach monitor: operands of different floating dtypes in one op: every operand's gradient keeps that operand's dtype and shape (fresh leaves).")
ASSUMPTIONS = ["single precision agreement = |y32 - y64| <= (64 + 8*log2 n) * eps32 * max(|y64|, y64(|x|), max|x|) (forward-error bound)",
               "for mixed-dtype operands (float64 input through float32 default layer parameters) only the gradient shape/dtype contract is asserted"]
SHARD_TIMEOUT = {"quick": 900, "thorough": 3600}


def gen_cases(tier, seed):
    rng = gen.rng_for(seed, "c10", tier)
    cases = []
    budget = {"quick": 300, "thorough": 5000}[tier]
    for name, op in OPS.items():
        g = catalog.grid(name, tier, rng)
        items = []
        for shapes, args in g:
            for form in op.forms:
                if form in ("left", "right") and args.get("side") != form:
                    continue
                items.append((shapes, args, form))
        if len(items) > budget:
            strata = {}
            for it in items:
                strata.setdefault((it[2], op.argclass(it[1], it[0]), catalog.shape_class(it[0])), []).append(it)
            keep = [v[int(rng.integers(len(v)))] for v in strata.values()]
            rest = [it for it in items if it not in keep]
            extra = max(0, budget - len(keep))
            if extra and rest:
                keep += [rest[int(i)] for i in rng.choice(len(rest), min(extra, len(rest)), replace=False)]
            items = keep
        for n, (shapes, args, form) in enumerate(items):
            vopts = catalog.vclass_options(op, args)
            cases.append({"kind": "tensor", "op": name, "form": form, "shapes": shapes, "args": args, "vclass": vopts[n % len(vopts)],
                          "gother": bool(n % 2), "seed": int(rng.integers(2 ** 31))})
    for c in nncommon.build_cases(tier, seed, "c10", budget={"quick": 240, "thorough": 3000}[tier]):
        c["kind"] = "nn"
        c["gother"] = bool(c["n"] % 2)
        c["mixed"] = bool(c["n"] % 5 == 4)
        c["storage"] = ["plain", "strided", "plain", "transposed"][c["n"] % 4]
        if c["op"] in ("sigmoid", "tanh", "selu", "softmax", "log_softmax", "bce_with_logits", "cross_entropy") and c["n"] % 3 == 1:
            c["a"] = dict(c["a"], vclass="huge")
        if c["op"] in ("sigmoid", "tanh") and c["n"] % 3 == 2:
            c["a"] = dict(c["a"], vclass="tails")
        if c["op"] in ("bce_loss", "bce_with_logits", "mse_loss") and c["n"] % 4 == 1:
            # hard 0/1 labels in small integer / bool arrays: the loss keeps the floating dtype of the prediction
            # (8- and 16-bit labels only: NumPy - like PyTorch - keeps float32 for those; what float32 x int64 / bool gives is not asserted)
            c["int_operands"] = {"1": ["uint8", "int8", "int16", "uint16"][(c["n"] // 4) % 4]}
        if c["op"] == "batch_norm" and c["n"] % 3 == 0:
            c["a"] = dict(c["a"], vclass="offset")          # |mean| >> std: float32 must still agree with float64 to single precision
        cases.append(c)
    for k in range(24 if tier == "quick" else 400):
        cases.append({"kind": "stateful", "dtype": ["float32", "float64"][k % 2], "rank": [2, 3, 4][k % 3], "momentum": [0.1, None, 0.5][(k // 2) % 3],
                      "affine": bool((k // 3) % 2), "n_train": 1 + k % 3, "seed": int(rng.integers(2 ** 31))})
    return cases


def V(sig, what, **detail):
    return {"sig": sig, "what": what, "detail": detail}


def bound32(y64, yabs, opmax, n):
    eps = np.finfo(np.float32).eps
    K = 64 + 8 * math.log2(max(2, n))
    with np.errstate(invalid="ignore"):
        S = np.maximum(np.maximum(np.abs(y64), np.abs(yabs)), opmax)
    S = np.where(np.isfinite(S), S, opmax)
    return K * eps * np.maximum(S, 1e-30)


def run_tensor(ns, mon, case):
    op = OPS[case["op"]]
    a = case["args"]
    rng = gen.rng_for(case["seed"], "vals")
    xs64 = catalog.make_operands(case, rng)
    argclass = op.argclass(a, case["shapes"])
    sig = f"{op.name}.{case['form']}"
    viol, counters = [], {}
    outs_by_dt = {}
    grads32 = None
    for dt in (np.float64, np.float32):
        xs = [x.astype(dt) for x in xs64]
        T = ns.Tensor
        grng = gen.rng_for(case["seed"], "g-shared")            # the same upstream gradient for every dtype
        if a.get("alias"):
            t0 = T(xs[0].copy(), requires_grad=True)
            ts = [t0] * len(xs)
        else:
            ts = [T(x.copy(), requires_grad=True) for x in xs]
        try:
            with np.errstate(all="ignore"):
                out = op.forms[case["form"]](ns, ts, a)
        except Exception:
            mon.drain()
            return {"counters": {"forward_rejected": 1}}
        outs = list(out) if isinstance(out, (tuple, list)) else [out]
        outs_by_dt[np.dtype(dt).name] = [np.asarray(o.data) for o in outs]
        for o in outs:
            counters["result_dtype_checks"] = counters.get("result_dtype_checks", 0) + 1
            if o.dtype != np.dtype(dt):
                rk = "0d" if o.data.ndim == 0 else "nd"
                viol.append(V(f"{sig}:result-dtype:{np.dtype(dt).name}-operands:{rk}", f"result dtype {o.dtype} for {np.dtype(dt).name} operands (result rank {o.data.ndim})",
                              args=a, shapes=case["shapes"]))
        if not outs or not all(o.requires_grad for o in outs):
            continue
        gdt = (np.float32 if dt == np.float64 else np.float64) if case["gother"] else dt
        try:
            for o in outs:
                o.backward(T(gen.upstream(grng, o.shape, "normal").astype(gdt)))
        except Exception as e:
            viol.append(V(f"{sig}:backward-raises:g-{'other' if case['gother'] else 'same'}-dtype", f"backward raised {type(e).__name__} with a {np.dtype(gdt).name} upstream gradient on a {np.dtype(dt).name} result",
                          error=str(e)[:200]))
            continue
        for i, t in enumerate(ts):
            counters["operand_grad_checks"] = counters.get("operand_grad_checks", 0) + 1
            g = t._grad
            if g is None:
                continue
            if tuple(g.shape) != tuple(t.data.shape):
                viol.append(V(f"{sig}:operand-grad-shape", f"operand {i} grad shape {list(g.shape)} != {list(t.data.shape)}", args=a, shapes=case["shapes"]))
            elif g.dtype != t.data.dtype:
                viol.append(V(f"{sig}:operand-grad-dtype", f"operand {i} grad dtype {g.dtype} != {t.data.dtype}", args=a))
            gt = t.grad
            if gt is not None and (gt.dtype != t.dtype or gt.shape != t.shape):
                viol.append(V(f"{sig}:grad-property", ".grad property returns a tensor of another dtype/shape than the buffer"))
        if dt == np.float32:
            grads32 = [None if t._grad is None else np.asarray(t._grad, dtype=np.float64).copy() for t in ts]
    if len(xs64) >= 2 and not a.get("alias"):
        # operands of different floating dtypes in one op (a float32 parameter meeting float64 data): whatever dtype the result takes, every
        # operand's .grad has that operand's own dtype and shape (fresh leaves: no gradient buffer exists before this backward)
        for pat in (0, 1):
            dts_ = [np.float32 if (i_ % 2) == pat else np.float64 for i_ in range(len(xs64))]
            T = ns.Tensor
            ts = [T(x.astype(d_).copy(), requires_grad=True) for x, d_ in zip(xs64, dts_)]
            try:
                with np.errstate(all="ignore"):
                    out = op.forms[case["form"]](ns, ts, a)
                outs = list(out) if isinstance(out, (tuple, list)) else [out]
                if not outs or not all(o.requires_grad for o in outs):
                    continue
                grng = gen.rng_for(case["seed"], "g-mixed")
                for o in outs:
                    o.backward(T(gen.upstream(grng, o.shape, "normal").astype(o.dtype)))
            except Exception:
                counters["mixed_operand_dtypes_rejected"] = counters.get("mixed_operand_dtypes_rejected", 0) + 1
                mon.drain()
                continue
            counters["mixed_operand_dtype_checks"] = counters.get("mixed_operand_dtype_checks", 0) + 1
            for i, t in enumerate(ts):
                g = t._grad
                if g is None:
                    continue
                if tuple(g.shape) != tuple(t.data.shape):
                    viol.append(V(f"{sig}:operand-grad-shape:mixed-operand-dtypes", f"operand {i} grad shape {list(g.shape)} != {list(t.data.shape)}", args=a, shapes=case["shapes"]))
                elif g.dtype != t.data.dtype:
                    viol.append(V(f"{sig}:operand-grad-dtype:mixed-operand-dtypes", f"operand {i} ({t.data.dtype}) met operands of another floating dtype and got a {g.dtype} gradient",
                                  args=a, dtypes=[np.dtype(d_).name for d_ in dts_]))
            mon.drain()      # (graph-wide monitor findings for the mixed pass are covered by the two checks above)
    if "float32" in outs_by_dt and "float64" in outs_by_dt:
        try:
            yabs = op.ref([np.abs(x.astype(np.float32).astype(np.float64)) for x in xs64], a)
            yabs = list(yabs) if isinstance(yabs, tuple) else [yabs]
        except Exception:
            yabs = None
        opmax = max([float(np.max(np.abs(x))) for x in xs64 if x.size] + [0.0])
        # the float64 run saw the exact values, the float32 run their float32 roundings: compare on the float32-rounded operands instead
        xs32as64 = [x.astype(np.float32).astype(np.float64) for x in xs64]
        try:
            with np.errstate(all="ignore"):
                ts = [ns.Tensor(x.copy(), requires_grad=True) for x in xs32as64]
                if a.get("alias"):
                    ts = [ts[0]] * len(ts)
                o64 = op.forms[case["form"]](ns, ts, a)
                o64l = list(o64) if isinstance(o64, (tuple, list)) else [o64]
                if grads32 is not None and o64l and all(o.requires_grad for o in o64l):
                    # the float32 gradients describe the same function as the float64 ones: same operands (float32-rounded), same upstream g
                    grng = gen.rng_for(case["seed"], "g-shared")
                    for o in o64l:
                        o.backward(ns.Tensor(gen.upstream(grng, o.shape, "normal").astype(np.float32 if case["gother"] else np.float64).astype(np.float64)))
                    for i_, (g32, t64) in enumerate(zip(grads32, ts)):
                        g64 = None if t64._grad is None else np.asarray(t64._grad, dtype=np.float64)
                        if g32 is None or g64 is None or g32.shape != g64.shape or not (np.all(np.isfinite(g32)) and np.all(np.isfinite(g64))) or not g64.size:
                            continue
                        counters["gradient_precision_comparisons"] = counters.get("gradient_precision_comparisons", 0) + 1
                        scale = float(np.max(np.abs(g64)))
                        if float(np.max(np.abs(g32 - g64))) > 0.02 * scale + 1e-4 * max(1.0, opmax):
                            viol.append(V(f"{sig}:float32-gradient-disagrees-with-float64", f"gradient of operand {i_} computed in float32 differs from the float64 gradient "
                                          f"of the same function by {float(np.max(np.abs(g32 - g64))):.3g} (max |g| = {scale:.3g})", args=a, shapes=case["shapes"]))
                        if a.get("alias"):
                            break
            o64 = [np.asarray(o.data, dtype=np.float64) for o in (list(o64) if isinstance(o64, (tuple, list)) else [o64])]
        except Exception:
            o64 = None
        if o64 is not None:
            for k, (y32, y64) in enumerate(zip(outs_by_dt["float32"], o64)):
                counters["precision_comparisons"] = counters.get("precision_comparisons", 0) + 1
                if y32.shape != y64.shape:
                    viol.append(V(f"{sig}:shape-depends-on-dtype", f"float32 result shape {list(y32.shape)} != float64 result shape {list(y64.shape)}")); continue
                ya = np.asarray(yabs[k], dtype=np.float64) if yabs is not None and k < len(yabs) and np.shape(yabs[k]) == y64.shape else np.abs(y64)
                b = bound32(y64, ya, opmax, max(x.size for x in xs64) if xs64 else 1)
                d = np.abs(y32.astype(np.float64) - y64)
                with np.errstate(invalid="ignore"):
                    bad = ~(d <= b) & ~(y32.astype(np.float64) == y64)
                if bad.any():
                    i = tuple(int(v) for v in np.argwhere(bad)[0])
                    viol.append(V(f"{sig}:float32-result-inaccurate", f"float32 result differs from the float64 result beyond single precision at {list(i)}: {y32[i]!r} vs {y64[i]!r}",
                                  args=a, shapes=case["shapes"]))
    viol += mon.drain()
    res0d = any(o.ndim == 0 for o in outs_by_dt.get("float64", []))
    bcast = len(case["shapes"]) > 1 and any(s != case["shapes"][0] for s in case["shapes"])
    nontrivial = res0d or bcast or "scalar" in a or case["gother"]
    key = (op.name, case["form"], argclass, catalog.shape_class(case["shapes"]), case["gother"]) if nontrivial else None
    return {"key": key, "viol": dedup(viol), "counters": counters,
            "cover": {"ops": [sig], "features": [f for f, b_ in (("0d-result", res0d), ("broadcast", bcast), ("python-scalar", "scalar" in a), ("g-other-dtype", case["gother"])) if b_]}}


def dedup(viol):
    seen, out = set(), []
    for v in viol:
        if v["sig"] not in seen:
            seen.add(v["sig"]); out.append(v)
    return out


def run_nn(ns, mon, case):
    op = NNOPS[case["op"]]
    a = case["a"]
    sig = f"{op.name}.{case['form']}"
    viol, counters = [], {}
    specs, xs = nncommon.materialize(case)
    req = [sp["diff"] for sp in specs]
    res = {}
    rng = gen.rng_for(case["seed"], "g")
    grads32 = None
    for dt in (np.float64, np.float32):
        rng = gen.rng_for(case["seed"], "g")                 # the same upstream gradient for every dtype
        xsd = [x.astype(dt) if not sp["int"] else x for sp, x in zip(specs, xs)]
        mixed = case["mixed"] and dt == np.float64 and case["form"] == "module" and len(specs) > 1 and op.name in ("linear", "conv1d", "conv2d", "batch_norm")
        try:
            with np.errstate(all="ignore"):
                if mixed:
                    # float64 input through a layer whose parameters stay at their float32 default
                    xsd = [xsd[0]] + [x.astype(np.float32) if not sp["int"] else x for sp, x in zip(specs[1:], xs[1:])]
                    specs2 = specs
                    ts = []
                    for sp, x, r in zip(specs, xsd, req):
                        ts.append(ns.Tensor(np.asarray(x, dtype=np.int64)) if sp["int"] else ns.Tensor(np.array(x, copy=True), requires_grad=bool(r)))
                    out = op.forms[case["form"]](ns, ts, copy.deepcopy(a))
                else:
                    ts, out = nncommon.forward(ns, case, xsd, dtype=dt, req=req)
        except Exception:
            mon.drain()
            return {"counters": {"forward_rejected": 1}}
        counters["result_dtype_checks"] = counters.get("result_dtype_checks", 0) + 1
        if not mixed:
            res[np.dtype(dt).name] = np.asarray(out.data)
            if out.dtype != np.dtype(dt):
                rk = "0d" if out.data.ndim == 0 else "nd"
                viol.append(V(f"{sig}:result-dtype:{np.dtype(dt).name}-operands:{rk}", f"result dtype {out.dtype} for {np.dtype(dt).name} operands", args=a))
        if not out.requires_grad:
            continue
        gdt = (np.float32 if out.dtype == np.float64 else np.float64) if case["gother"] else out.dtype
        try:
            out.backward(ns.Tensor(np.asarray(gen.upstream(rng, out.shape, "normal")).astype(gdt)))
        except Exception as e:
            viol.append(V(f"{sig}:backward-raises:{'mixed-dtypes' if mixed else 'g-' + ('other' if case['gother'] else 'same') + '-dtype'}",
                          f"backward raised {type(e).__name__}", error=str(e)[:200], args=a))
            continue
        for sp, t in zip(specs, ts):
            g = t._grad
            counters["operand_grad_checks"] = counters.get("operand_grad_checks", 0) + 1
            if g is None:
                continue
            if tuple(g.shape) != tuple(t.data.shape):
                viol.append(V(f"{sig}:{sp['name']}:grad-shape", f"grad shape {list(g.shape)} != {list(t.data.shape)}", args=a))
            elif g.dtype != t.data.dtype:
                viol.append(V(f"{sig}:{sp['name']}:grad-dtype", f"grad dtype {g.dtype} != {t.data.dtype}", args=a))
        if dt == np.float32 and not mixed:
            grads32 = [None if t._grad is None else np.asarray(t._grad, dtype=np.float64).copy() for t in ts]
    if "float32" in res and "float64" in res and op.name != "dropout":
        xs32 = [x.astype(np.float32).astype(np.float64) if not sp["int"] else x for sp, x in zip(specs, xs)]
        try:
            with np.errstate(all="ignore"):
                ts64, o64 = nncommon.forward(ns, case, xs32, dtype=np.float64, req=req)
            y64 = np.asarray(o64.data, dtype=np.float64)
            if grads32 is not None and o64.requires_grad and not a.get("second_forward") and not a.get("history") and not case.get("twice"):
                # the float32 gradients describe the same function as the float64 ones (same float32-rounded operands, same upstream g)
                grng = gen.rng_for(case["seed"], "g")
                g_ = np.asarray(gen.upstream(grng, o64.shape, "normal"))
                g_ = g_.astype(np.float64 if case["gother"] else np.float32).astype(np.float64)
                cond_ok = True
                if op.name == "batch_norm":
                    x0_ = xs32[0]
                    use_batch_ = a["training"] or not a["track"]
                    sig_ = np.sqrt(np.var(x0_, axis=tuple(i for i in range(x0_.ndim) if i != 1)) + a["eps"]) if use_batch_ else np.sqrt(np.abs(xs32[-1]) + a["eps"])
                    cond_ok = float(np.max(np.abs(x0_))) / float(np.min(sig_)) < 100
                with np.errstate(all="ignore"):
                    o64.backward(ns.Tensor(g_))
                for sp, g32, t64 in zip(specs, grads32, ts64):
                    g64 = None if t64._grad is None else np.asarray(t64._grad, dtype=np.float64)
                    if not cond_ok or g32 is None or g64 is None or g32.shape != g64.shape or not g64.size or not (np.all(np.isfinite(g32)) and np.all(np.isfinite(g64))):
                        continue
                    counters["gradient_precision_comparisons"] = counters.get("gradient_precision_comparisons", 0) + 1
                    scale = float(np.max(np.abs(g64)))
                    if float(np.max(np.abs(g32 - g64))) > 0.02 * scale + 1e-4:
                        viol.append(V(f"{sig}:{sp['name']}:float32-gradient-disagrees-with-float64", f"gradient of '{sp['name']}' computed in float32 differs from the "
                                      f"float64 gradient of the same function by {float(np.max(np.abs(g32 - g64))):.3g} (max |g| = {scale:.3g})", args=a))
            y32 = res["float32"]
            counters["precision_comparisons"] = counters.get("precision_comparisons", 0) + 1
            if y32.shape != y64.shape:
                viol.append(V(f"{sig}:shape-depends-on-dtype", f"float32 result shape {list(y32.shape)} != float64 {list(y64.shape)}"))
            else:
                opmax = max([float(np.max(np.abs(x))) for sp, x in zip(specs, xs32) if not sp["int"] and x.size] + [0.0])
                try:
                    yabs = np.asarray(nncommon.reference(case, [np.abs(x) if not sp["int"] else x for sp, x in zip(specs, xs32)]), dtype=np.float64)
                    if yabs.shape != y64.shape:
                        yabs = np.abs(y64)
                except Exception:
                    yabs = np.abs(y64)
                if op.name in ("sigmoid", "tanh"):
                    # component-wise: the float32 result is the exact function of the float32 input perturbed by a few ulps (relative accuracy in the tails)
                    e_ = float(np.finfo(np.float32).eps)
                    with np.errstate(all="ignore"):
                        up_ = np.asarray(nncommon.reference(case, [xs32[0] * (1 + 4 * e_)] + list(xs32[1:])), dtype=np.float64)
                        dn_ = np.asarray(nncommon.reference(case, [xs32[0] * (1 - 4 * e_)] + list(xs32[1:])), dtype=np.float64)
                    b = 16 * e_ * np.abs(y64) + np.abs(up_ - y64) + np.abs(dn_ - y64) + float(np.finfo(np.float32).tiny)
                elif op.name == "batch_norm":
                    # condition scale of (x - mean)/sigma: rounding of x (relative eps) is amplified by |x|/sigma
                    x0 = xs32[0]
                    axes = tuple(i for i in range(x0.ndim) if i != 1)
                    use_batch = a["training"] or not a["track"]
                    sigma = np.sqrt(np.var(x0, axis=axes) + a["eps"]) if use_batch else np.sqrt(np.abs(xs32[-1]) + a["eps"])
                    amp = float(np.max(np.abs(x0))) / float(np.min(sigma))
                    gmax = float(np.max(np.abs(xs32[1]))) if a["affine"] else 1.0
                    b = (64 + 8 * math.log2(max(2, x0.size))) * np.finfo(np.float32).eps * (amp * max(1.0, gmax) + np.abs(y64)) * 4
                else:
                    b = bound32(y64, yabs, opmax, max(x.size for x in xs))
                d = np.abs(y32.astype(np.float64) - y64)
                with np.errstate(invalid="ignore"):
                    bad = ~(d <= b) & ~(y32.astype(np.float64) == y64)
                if bad.any():
                    i = tuple(int(v) for v in np.argwhere(bad)[0])
                    viol.append(V(f"{sig}:float32-result-inaccurate", f"float32 result differs from float64 beyond single precision at {list(i)}: {y32[i]!r} vs {y64[i]!r}", args=a))
        except Exception:
            pass
    viol += mon.drain()
    res0d = "float64" in res and res["float64"].ndim == 0
    nontrivial = res0d or case["gother"] or case["mixed"]
    key = (op.name, case["form"], json.dumps(a, sort_keys=True), case["gother"], case["mixed"]) if nontrivial else None
    return {"key": key, "viol": dedup(viol), "counters": counters,
            "cover": {"ops": [sig], "features": [f for f, b_ in (("0d-result", res0d), ("g-other-dtype", case["gother"]), ("mixed-param-dtype", case["mixed"])) if b_]}}


def run_stateful(ns, mon, case):
    """layers with state: the dtype of outputs and buffers must not drift over a train -> eval history"""
    nn, T = ns.nn, ns.Tensor
    rng = gen.rng_for(case["seed"], "st")
    dt = np.dtype(case["dtype"])
    C = 3
    cls = nn.BatchNorm2d if case["rank"] == 4 else nn.BatchNorm1d
    m = cls(C, momentum=case["momentum"], affine=case["affine"], dtype=dt.type)
    viol, counters = [], {"stateful_histories": 1}
    shp = {2: (5, C), 3: (4, C, 3), 4: (3, C, 2, 2)}[case["rank"]]

    def check(tag, y):
        counters["result_dtype_checks"] = counters.get("result_dtype_checks", 0) + 1
        if y.dtype != dt:
            viol.append(V(f"batch_norm-history:{tag}:output-dtype", f"{tag} output is {y.dtype} for a {dt} layer and input", history=hist))
        for nm in ("running_mean", "running_var"):
            b = getattr(m, nm)
            if b is not None and b.dtype != dt:
                viol.append(V(f"batch_norm-history:{nm}-dtype", f"{nm} became {b.dtype} in a {dt} layer after {tag}", history=hist))
    hist = []
    m.train()
    for i in range(case["n_train"]):
        x = T(rng.standard_normal(shp).astype(dt), requires_grad=True)
        hist.append("train-forward")
        y = m(x)
        check("training", y)
        y.sum().backward()
        if x._grad is not None and x._grad.dtype != dt:
            viol.append(V("batch_norm-history:input-grad-dtype", f"input grad {x._grad.dtype} for {dt} input"))
    m.eval()
    x = T(rng.standard_normal(shp).astype(dt), requires_grad=True)
    hist.append("eval-forward")
    y = m(x)
    check("eval-after-training", y)
    y.sum().backward()
    if x._grad is not None and (x._grad.dtype != dt or x._grad.shape != x.shape):
        viol.append(V("batch_norm-history:input-grad-dtype", f"input grad {x._grad.dtype}/{x._grad.shape} for {dt} input in eval"))
    # gradient buffers created by the three reset paths keep the parameter's dtype
    for path in ("optimizer", "module", "tensor"):
        lin = nn.Linear(3, 2)
        if case["seed"] % 2:
            # the layer was already used at its default precision (gradient buffers exist) before it is switched to the working dtype
            lin(T(rng.standard_normal((4, 3)).astype(np.float32))).sum().backward()
        for p_ in lin.parameters():
            p_.data = p_.data.astype(dt)
        opt = [ns.optim.SGD(lin.parameters(), lr=0.1, momentum=0.5), ns.optim.Adam(lin.parameters(), lr=0.01),
               ns.optim.AdamW(lin.parameters(), lr=0.01, weight_decay=0.1)][case["seed"] % 3]
        for it in range(2):
            if path == "optimizer":
                opt.zero_grad()
            elif path == "module":
                lin.zero_grad()
            else:
                for p_ in lin.parameters():
                    p_.zero_()
            out = lin(T(rng.standard_normal((4, 3)).astype(dt)))
            out.sum().backward()
            counters["operand_grad_checks"] = counters.get("operand_grad_checks", 0) + 1
            for p_ in lin.parameters():
                if p_._grad is None or p_._grad.dtype != dt or p_.data.dtype != dt:
                    viol.append(V(f"reset-path:{path}:grad-dtype", f"after zeroing via the {path} and a backward, a {dt} parameter has grad dtype "
                                  f"{None if p_._grad is None else p_._grad.dtype} / data dtype {p_.data.dtype}", iteration=it))
            opt.step()
            for p_ in lin.parameters():
                if p_.data.dtype != dt:
                    viol.append(V(f"optimizer-step:{type(opt).__name__}:parameter-dtype", f"a {dt} parameter became {p_.data.dtype} after {type(opt).__name__}.step()"))
            y_ = lin(T(rng.standard_normal((2, 3)).astype(dt)))
            if y_.dtype != dt:
                viol.append(V(f"optimizer-step:{type(opt).__name__}:layer-output-dtype", f"a {dt} layer returns {y_.dtype} after an optimizer step"))
    d = nn.Dropout(0.3); d.train()
    yd = d(T(rng.standard_normal(shp).astype(dt)))
    if yd.dtype != dt:
        viol.append(V("dropout:output-dtype", f"dropout output {yd.dtype} for {dt} input"))
    viol += mon.drain()
    return {"key": ("stateful", case["dtype"], case["rank"], str(case["momentum"]), case["affine"], case["n_train"]), "viol": dedup(viol), "counters": counters,
            "cover": {"ops": ["batch_norm.history"], "features": ["stateful-history"]}}


def run_case(ns, mon, case):
    if case["kind"] == "stateful":
        return run_stateful(ns, mon, case)
    return run_tensor(ns, mon, case) if case["kind"] == "tensor" else run_nn(ns, mon, case)


def setup(ns, tier, seed):
    mon = monitors.Monitors(ns)
    mon.install_backward_trace(shape_dtype=True, release=False)
    return mon


def teardown(ns, mon):
    return {"counters": mon.take_counters()}


def finish(agg, tier):
    c = agg["counters"]
    return [f"zero-events:{k}" for k in ("result_dtype_checks", "operand_grad_checks", "precision_comparisons", "grad_shape_dtype_checks") if not c.get(k)]
