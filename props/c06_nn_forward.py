"""C06 — forward results of nn ops / layers / losses match their documented (PyTorch) definitions (O2 + StrideSanitizer)."""
import json, math
import numpy as np
from harness import gen, monitors, nncommon, nncatalog
from harness.nncatalog import NNOPS, Reject

PID = "C06"
RULE = ("nn-op catalogue (activations, softmax family, losses x reductions, linear, conv1d/2d, max/avg pool 1d/2d, unfold, fold, batch-norm "
        "modes) x {functional, Module} forms x geometry grid (N,C<=2; L<=7(9); k,s<=3; d<=2; p<=half dilated kernel; int / tuple / mixed "
        "argument forms; 'same'/'valid'; stride None) x dtype x value class (normal, position-coded for unfold, all-very-negative for "
        "max-pool padding, |x|<=800 for the exp-based ops), contiguous and non-contiguous operand storage, batch-norm eval forward after a train/eval/train history with momentum=None + empty-output geometries that must raise; oracle = naive loop reference (harness/ref/nnref.py) under the verdict "
        "table, stride-bounds sanitizer on every as_strided view; distinct key = (op, form, argclass, dtype, value class, verdict); "
        "non-trivial = output has >1 element or rejection side")
RULE += (' Added after the seeded rounds: the same configuration called first in the other dtype; batch-norm histories with numeric momentum (0.0, 0.5) and eps 1e-3; condition-aware float32 bound for batch norm.')
RULE += (" Round 6 / reach monitor: the nn.Flatten layer (defaults, every start/end pair, keyword form); padding='same' with a stride must be refused.")
ASSUMPTIONS = ["reference models written from the PyTorch documentation (cross-correlation, floor output size, -inf max-pool padding, zero avg-pool "
               "padding counted, channel-major unfold rows, row-major blocks, biased batch variance)",
               "forward-error bound K*eps(dtype)*max(|ref|, ref(|operands|), max|operand|), K = 32+4*log2(n) (256 for batch norm)",
               "PyTorch semantics for reduction='none' of NLL/CE is shape (N,)"]
SHARD_TIMEOUT = {"quick": 900, "thorough": 3600}
SPECIAL_V = {"max_pool1d": ["distinct", "negbig", "intvalued"], "max_pool2d": ["distinct", "negbig", "intvalued"], "unfold": ["poscode", "normal"],
             "avg_pool1d": ["normal", "shifted"], "avg_pool2d": ["normal", "shifted"]}


def gen_cases(tier, seed):
    cases = nncommon.build_cases(tier, seed, "c06", budget={"quick": 500, "thorough": 12000}[tier], with_empty=True)
    out = []
    for c in cases:
        if c["op"] == "dropout":
            continue
        c["dtype"] = ["float64", "float32"][c["n"] % 2]
        c["storage"] = ["plain", "strided", "plain", "transposed", "shared-base", "plain"][c["n"] % 6]
        if c["op"] in ("sigmoid", "tanh", "selu", "softmax", "log_softmax", "bce_with_logits", "cross_entropy") and c["n"] % 3 == 1:
            c["a"] = dict(c["a"], vclass="huge")           # saturating magnitudes (|x| up to 800), both dtypes
        if c["op"] in ("sigmoid", "tanh") and c["n"] % 3 == 2:
            c["a"] = dict(c["a"], vclass="tails")          # 16 <= |x| <= 80: tiny results far from underflow
        if c["op"] in ("bce_loss", "bce_with_logits", "mse_loss") and c["n"] % 4 == 2:
            # hard 0/1 labels as they come out of a data pipeline: masks and label arrays of small integer types
            c["int_operands"] = {"1": ["uint8", "bool", "int8", "int16", "int64", "uint16"][(c["n"] // 4) % 6]}
        if c["op"] == "batch_norm" and c["n"] % 3 == 0:
            c["a"] = dict(c["a"], vclass="offset")          # |mean| >> std (300 +- 0.5): the statistics are still those of the data (two-pass accuracy)
        sv = SPECIAL_V.get(c["op"])
        if sv:
            c["a"] = dict(c["a"], vclass=sv[c["n"] % len(sv)])
        out.append(c)
    return out


def V(sig, what, **detail):
    return {"sig": sig, "what": what, "detail": detail}


def bound(ref, ref_abs, opmax, dtype, n, K0=32):
    eps = np.finfo(dtype).eps
    K = K0 + 4 * math.log2(max(2, n))
    with np.errstate(invalid="ignore"):
        S = np.maximum(np.maximum(np.abs(ref), np.abs(ref_abs)), opmax)
    S = np.where(np.isfinite(S), S, opmax)
    return K * eps * np.maximum(S, 1e-30)


def run_case(ns, mon, case):
    op = NNOPS[case["op"]]
    a = case["a"]
    dt = np.dtype(case["dtype"])
    argclass = op.argclass(a)
    sigbase = f"{op.name}.{case['form']}:{argclass}" if not case["empty_geometry"] else f"{op.name}:empty-geometry"
    counters = {}
    try:
        specs, xs = nncommon.materialize(case)
    except Reject:
        specs, xs = None, None
    viol = []
    if xs is None:
        return {"counters": {"unmaterializable": 1}}
    xs = [x.astype(dt) if not sp["int"] else x for sp, x in zip(specs, xs)]
    try:
        with np.errstate(all="ignore"):
            ref = nncommon.reference(case, xs)
            ref_abs = nncommon.reference(case, [np.abs(x) if not sp["int"] else x for sp, x in zip(specs, xs)])
        rej = False
    except Reject:
        ref, rej = None, True
    if case.get("n", 0) % 3 == 0 and not case.get("a", {}).get("second_forward") and not case.get("a", {}).get("history"):
        # the same configuration was used a moment ago with the other dtype (mixed-precision code does this): nothing of that call may
        # leak into this one (geometry caches, cached window views, ...)
        other = np.dtype("float32") if dt == np.float64 else np.dtype("float64")
        try:
            with np.errstate(all="ignore"):
                nncommon.forward(ns, case, [x.astype(other) if x.dtype.kind == "f" else x for x in xs], dtype=other)
            counters["other_dtype_first"] = 1
        except Exception:
            pass
    try:
        with np.errstate(all="ignore"):
            ts, out = nncommon.forward(ns, case, xs, dtype=dt)
        raised = None
    except Exception as e:
        out, raised = None, e
    if rej and raised is not None:
        verdict = "both-reject"
    elif rej:
        verdict = "answered-illegal"
        viol.append(V(sigbase + ":answered-what-it-cannot-honour", "a configuration with an empty/undefined output was answered instead of raising",
                      result_shape=list(getattr(out, "shape", ()))))
    elif raised is not None:
        if op.documented(a):
            verdict = "documented-form-rejected"
            viol.append(V(sigbase + ":documented-form-rejected", f"configuration allowed by the documentation raised {type(raised).__name__}",
                          error=str(raised)[:200], args=a))
        else:
            verdict = "rejected-undocumented"
    else:
        verdict = "value"
        got = np.asarray(out.data)
        ref = np.asarray(ref, dtype=np.float64)
        if tuple(got.shape) != tuple(ref.shape) and a.get("padding") == "same" and any(
                (d_ * (k_ - 1)) % 2 for k_, d_ in zip(nncatalog.R.pair(a["kernel"]), nncatalog.R.pair(a["dilation"]))):
            # mechanism: an odd total padding d*(k-1) cannot be split symmetrically (PyTorch pads asymmetrically)
            viol.append(V("conv.same-padding:odd-total-padding:shape", f"padding='same' with even effective kernel: output shape {list(got.shape)} != input size {list(ref.shape)}",
                          args=a))
        elif tuple(got.shape) != tuple(ref.shape):
            viol.append(V(sigbase + ":wrong-answer:shape", f"output shape {list(got.shape)} != reference {list(ref.shape)}", args=a))
        elif got.size:
            opmax = max([float(np.max(np.abs(x))) for sp, x in zip(specs, xs) if not sp["int"] and x.size] + [0.0])
            if not np.isfinite(opmax):
                opmax = 0.0
            b = bound(ref, np.asarray(ref_abs, dtype=np.float64), opmax, dt, max(x.size for x in xs), K0=256 if op.name == "batch_norm" else 32)
            if op.name in ("sigmoid", "tanh"):
                # smooth element-wise functions are judged component-wise: the result is the exact function of an input perturbed by a few ulps
                # (relative accuracy also in the tails, where the result is tiny), with the smallest normal number as absolute floor
                e_ = float(np.finfo(dt).eps)
                x0_ = xs[0].astype(np.float64)
                with np.errstate(all="ignore"):
                    up_ = np.asarray(nncommon.reference(case, [x0_ * (1 + 4 * e_)] + list(xs[1:])), dtype=np.float64)
                    dn_ = np.asarray(nncommon.reference(case, [x0_ * (1 - 4 * e_)] + list(xs[1:])), dtype=np.float64)
                b = 16 * e_ * np.abs(ref) + np.abs(up_ - ref) + np.abs(dn_ - ref) + float(np.finfo(dt).tiny)
            if op.name == "batch_norm":
                # the rounding of x and of the mean is divided by sqrt(var+eps): the bound follows the conditioning of the statistics used
                x0 = xs[0].astype(np.float64)
                vs = [x0.var(axis=tuple(i for i in range(x0.ndim) if i != 1))] + [np.abs(x.astype(np.float64)) for sp, x in zip(specs[1:], xs[1:])
                                                                                   if not sp["int"] and x.size and sp.get("vclass") == "runvar"]
                with np.errstate(all="ignore"):
                    smin = min(float(np.sqrt(np.min(v) + a.get("eps", 1e-5))) for v in vs)
                if np.isfinite(smin) and 0 < smin < 1:
                    b = b / smin
            d = np.abs(got.astype(np.float64) - ref)
            with np.errstate(invalid="ignore"):
                bad = ~(d <= b) & ~((got.astype(np.float64) == ref))
            if bad.any() and op.name == "bce_loss" and dt == np.float64:
                # mechanism: 1e-12 guard constants inside both logarithms
                p_, t_ = xs[0].astype(np.float64), xs[1].astype(np.float64)
                guard = -(t_ * np.log(p_ + 1e-12) + (1 - t_) * np.log(1 - p_ + 1e-12))
                guard = guard if not a["form_is_module"] else nncatalog.R.reduce_loss(guard, a["reduction"])
                if np.all(np.abs(got - guard) <= b):
                    viol.append(V("bce:epsilon-guard:float64-precision", "BCE is computed with log(p + 1e-12): float64 result off by ~1e-12/p",
                                  got=float(np.ravel(got)[0]), want=float(np.ravel(ref)[0])))
                    bad = np.zeros_like(bad)
            if bad.any():
                i = tuple(int(v) for v in np.argwhere(bad)[0])
                viol.append(V(sigbase + ":wrong-answer:value", f"output at {list(i)}: got {got[i]!r}, reference {ref[i]!r} (bound {float(np.broadcast_to(b, ref.shape)[i]):.3g})",
                              args=a, dtype=str(dt)))
    viol += mon.drain()
    counters[f"verdict:{verdict}"] = 1
    nontrivial = verdict != "value" or (ref is not None and np.asarray(ref).size > 1)
    vclass = a.get("vclass", "default")
    key = (op.name, case["form"], json.dumps(a, sort_keys=True), case["dtype"], verdict, case.get("storage")) if nontrivial else None
    return {"key": key, "viol": viol, "counters": counters,
            "cover": {"ops": [op.name], "forms": [f"{op.name}.{case['form']}"], "verdicts": [verdict], "argclasses": [f"{op.name}:{argclass}"],
                      "storage": [case.get("storage", "plain")]}}


def setup(ns, tier, seed):
    mon = monitors.Monitors(ns)
    mon.install_kernel_sanitizer()
    mon.install_stride_sanitizer()
    return mon


def teardown(ns, mon):
    return {"counters": mon.take_counters()}


def finish(agg, tier):
    c = agg["counters"]
    r = []
    for k in ("verdict:value", "verdict:both-reject"):
        if not c.get(k):
            r.append(f"zero-events:{k}")
    return r
