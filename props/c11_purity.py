"""C11 — forward and backward never modify operands, targets, bystanders or the caller's gradient (byte snapshots + kernel sanitizer)."""
import copy, hashlib, json
import numpy as np
from harness import gen, monitors, catalog, nncommon, nncatalog, programs
from harness.catalog import OPS
from harness.nncatalog import NNOPS

PID = "C11"
RULE = ("every op form of the tensor and nn catalogues with operands stored as plain arrays, transposed views, strided views and reshaped views of "
        "one shared base (also the same base behind two operands), float32/float64; byte snapshots of operands, targets, the caller's upstream "
        "gradient and bystander tensors (data and grad) around forward, around backward, around follow-up events that would expose aliasing "
        "(second backward through a larger graph, leaf re-accumulation, zero_, optimizer step) and around a repeat of the op (results must be "
        "bit-identical); clone()/detach() storage independence; training batch-norm may change only its running statistics; documented "
        "mutators (optimizer.step, initialisers, zero_grad) change only what they document; backward sweeps over random DAG programs with "
        "bystander graphs; every kernel call is wrapped by an argument-mutation sanitizer that names the kernel. distinct key = (op, form, "
        "storage class, argclass); non-trivial = an operand is a non-contiguous or shared-base view, or the case includes follow-up events")
RULE += (" Added after the seeded rounds: tensor-level snapshots (the array an operand tensor holds afterwards, its dtype); inputs whose dtype differs from the layer's parameters, integer / bool targets; an earlier result is not rewritten by a later call on other values; eval-mode batch norm never writes its buffers (toggled tracking, fresh module, repeated calls); deep copies own data and gradient buffers.")
RULE += (" Round 6 / reach monitor: operands on the boundary of the domain (exact zeros for sqrt / log / powers / division); the op's result unchanged by backward; functional inference-mode batch norm with one or both statistics; upstream gradients whose shape is not exactly the root's (refused or accepted: the caller's tensor keeps shape and bytes).")
ASSUMPTIONS = ["aliasing without a write (a result sharing memory with an operand, e.g. reshape) is recorded as information, never as a violation",
               "bit-identical repeat is asserted in one process with BLAS pinned to one thread"]
SHARD_TIMEOUT = {"quick": 900, "thorough": 3600}
STORAGE = ["plain", "transposed", "strided", "reshaped", "shared-base"]


def gen_cases(tier, seed):
    rng = gen.rng_for(seed, "c11", tier)
    cases = []
    budget = {"quick": 240, "thorough": 4000}[tier]
    for name, op in OPS.items():
        g = catalog.grid(name, tier, rng)
        items = [(s, a, f) for s, a in g for f in op.forms if not (f in ("left", "right") and a.get("side") != f)]
        if len(items) > budget:
            items = [items[int(i)] for i in rng.choice(len(items), budget, replace=False)]
        for n, (shapes, args, form) in enumerate(items):
            vopts = catalog.vclass_options(op, args)
            if name in ("sqrt", "log", "pow", "div", "rdiv", "exp", "mul", "sum", "max", "min") or n % 5 == 4:
                vopts = list(vopts) + ["nonneg-withzeros"]      # purity holds on the boundary of the domain too (exact zeros: infinite derivatives, guards)
            cases.append({"kind": "tensor", "op": name, "form": form, "shapes": shapes, "args": args, "vclass": vopts[n % len(vopts)],
                          "storage": STORAGE[n % len(STORAGE)], "dtype": ["float64", "float32"][n % 2], "seed": int(rng.integers(2 ** 31))})
    for c in nncommon.build_cases(tier, seed, "c11", budget={"quick": 200, "thorough": 2500}[tier]):
        c["kind"] = "nn"
        if c["n"] % 3 == 0 and c["op"] in ("relu", "leaky_relu", "selu", "tanh", "sigmoid", "softmax", "log_softmax", "bce_with_logits", "cross_entropy"):
            c["a"] = dict(c["a"], vclass="large")            # saturating magnitudes: clamps / overflow guards must not be written into the operand
        c["storage"] = STORAGE[c["n"] % 4]
        # operands whose dtype differs from the layer's parameters / from the prediction: float64 or integer input, integer / bool targets
        c["mixed"] = [None, None, "input-other-float", None, "hard-int-target", "input-int", "hard-bool-target"][c["n"] % 7]
        c["dtype"] = ["float64", "float32"][c["n"] % 2]
        cases.append(c)
    for k in range(200 if tier == "quick" else 6000):
        cases.append({"kind": "program", "seed": int(rng.integers(2 ** 31)), "n_instr": int(rng.integers(3, 25))})
    for k in range(6 if tier == "quick" else 60):
        cases.append({"kind": "mutators", "seed": int(rng.integers(2 ** 31))})
    return cases


def V(sig, what, **detail):
    return {"sig": sig, "what": what, "detail": detail}


as_storage = gen.as_storage


def snap(arrs):
    return [None if a is None else (a.shape, a.dtype.str, np.ascontiguousarray(a).tobytes()) for a in arrs]


def digest(a):
    return hashlib.sha256(np.ascontiguousarray(a).tobytes() + str(a.dtype).encode() + str(a.shape).encode()).hexdigest()


def changed_contents(t, d0, dt0):
    d1 = t.data
    if d1 is d0:
        return False            # (writes into the same array are what the byte snapshots watch)
    return bool(d1.dtype != dt0 or d1.shape != d0.shape or d1.tobytes() != d0.tobytes())


def run_op_case(ns, mon, case):
    T = ns.Tensor
    rng = gen.rng_for(case["seed"], "vals")
    dt = np.dtype(case["dtype"])
    viol, counters = [], {}
    pool = {}
    held = []                       # (operand tensor, the array it held when it was handed over, its dtype)
    if case["kind"] == "tensor":
        op = OPS[case["op"]]
        a = case["args"]
        xs = [as_storage(x.astype(dt), case["storage"], rng, pool) for x in catalog.make_operands(case, rng)]
        ints = [False] * len(xs)
        argclass = op.argclass(a, case["shapes"])

        def fwd(req):
            ts = [T(x, requires_grad=req) for x in xs]
            if a.get("alias"):
                ts = [ts[0]] * len(ts)
            held[:] = [(t, t.data, t.data.dtype) for t in ts]
            return ts, op.forms[case["form"]](ns, ts, a)
        sig = f"{op.name}.{case['form']}"
    else:
        op = NNOPS[case["op"]]
        a = case["a"]
        specs, xs0 = nncommon.materialize(case)
        xs = [as_storage(x.astype(dt), case["storage"], rng, pool) if not sp["int"] else np.asarray(x, dtype=np.int64) for sp, x in zip(specs, xs0)]
        ints = [sp["int"] for sp in specs]
        mixed = case.get("mixed")
        other = np.dtype("float32") if dt == np.float64 else np.dtype("float64")
        if mixed == "input-other-float" and not ints[0]:
            xs[0] = as_storage(np.asarray(xs0[0]).astype(other), case["storage"], rng, pool)
        elif mixed == "input-int" and not ints[0] and specs[0].get("vclass") not in ("prob", "positive", "runvar"):     # (integers outside (0,1) are no probabilities)
            xs[0] = np.rint(np.asarray(xs0[0]) * 3).astype(np.int64); ints[0] = True
        elif mixed in ("hard-int-target", "hard-bool-target") and op.name in ("bce_loss", "bce_with_logits", "mse_loss") and len(xs) >= 2:
            xs[1] = (np.asarray(xs0[1]) > 0.5).astype(np.int64 if mixed == "hard-int-target" else np.bool_); ints[1] = True
        else:
            mixed = None
        if op.name in ("nll_loss", "cross_entropy") and case["seed"] % 4 == 3 and len(xs) >= 2 and ints[1]:
            # class indices counted from the end (-1 = last class), as NumPy indexing allows: if the loss accepts them it still only reads them
            lab_ = np.array(xs[1], dtype=np.int64, copy=True)
            lab_[::2] -= int(a["C"])
            xs[1] = lab_
        argclass = op.argclass(a)
        state_ok = op.name == "batch_norm"

        def fwd(req):
            ts = [T(x) if i_ else T(x, requires_grad=req and sp["diff"]) for x, i_, sp in zip(xs, ints, specs)]
            held[:] = [(t, t.data, t.data.dtype) for t in ts]
            # module forms copy parameter data into the layer: hand them the very arrays under observation
            return ts, op.forms[case["form"]](ns, ts, copy.deepcopy(a))
        sig = f"{op.name}.{case['form']}" + (f"[{mixed}]" if mixed else "")
    by_data = rng.standard_normal((3, 2)).astype(dt)
    bystander = T(by_data, requires_grad=True)
    (bystander * 2.0).sum().backward()
    watched = list(xs) + [bystander.data, bystander._grad]
    s0 = snap(watched)
    try:
        with np.errstate(all="ignore"):
            ts, out = fwd(True)
    except Exception:
        mon.drain()
        return {"counters": {"forward_rejected": 1}}
    counters["forward_snapshots"] = 1
    # an operand tensor that holds another array afterwards: a violation when dtype, shape or values differ from what it was given
    # (a re-wrapped array with identical contents is only counted)
    counters["operand_rebound_same_contents"] = sum(1 for t, d0, dt0 in held if t.data is not d0 and changed_contents(t, d0, dt0) is False)
    rebound = [i for i, (t, d0, dt0) in enumerate(held) if changed_contents(t, d0, dt0)]
    if rebound:
        t, d0, dt0 = held[rebound[0]]
        viol.append(V(f"{sig}:forward-rebound-operand-data", f"forward replaced the data array of operand {rebound[0]} (dtype {dt0} -> {t.data.dtype}): "
                      "the caller's tensor no longer holds what it was given", which=rebound, args=a))
    if snap(watched) != s0:
        which = [i for i, (p, q) in enumerate(zip(s0, snap(watched))) if p != q]
        viol.append(V(f"{sig}:forward-modified-" + ("operand" if which[0] < len(xs) else "bystander"), "forward changed the bytes of an operand/target or of a bystander tensor",
                      which=which, storage=case["storage"], args=a))
    outs = list(out) if isinstance(out, (tuple, list)) else [out]
    first = [o.data.copy() for o in outs]
    aliases = any(np.shares_memory(o.data, x) for o in outs for x in xs if isinstance(x, np.ndarray))
    # repeat on unchanged operands: bit-identical - also when other library calls (other ops, other dtypes) ran in between
    if op.name != "dropout":
        if case["seed"] % 2:
            disturb(ns)
            counters["repeats_after_other_calls"] = 1
        with np.errstate(all="ignore"):
            _, out2 = fwd(False)
        outs2 = list(out2) if isinstance(out2, (tuple, list)) else [out2]
        counters["repeat_digests"] = 1
        if any(digest(p) != digest(q.data) for p, q in zip(first, outs2)):
            viol.append(V(f"{sig}:repeat-not-bit-identical", "repeating the op on unchanged operands gave different bits", args=a))
    if op.name != "dropout" and case["kind"] == "nn":
        # an earlier result is a value: a later call of the same op (same shapes, other values) must not rewrite it
        try:
            saved_xs = list(xs)
            xs[:] = [x if i_ else (np.asarray(x, dtype=np.float64) * -0.7 + 0.9).astype(x.dtype) if specs[k_].get("vclass") not in ("prob", "positive", "runvar") else x
                     for k_, (x, i_) in enumerate(zip(saved_xs, ints))]
            with np.errstate(all="ignore"):
                fwd(False)
            xs[:] = saved_xs
            counters["result_stability_checks"] = 1
            if any(digest(p) != digest(o.data) for p, o in zip(first, outs)):
                viol.append(V(f"{sig}:earlier-result-rewritten-by-later-call", "the data of an earlier result changed when the op was called again on other values", args=a))
        except Exception:
            xs[:] = saved_xs
    if outs and all(o.requires_grad for o in outs):
        gs = [gen.upstream(rng, o.shape, "normal").astype(dt) for o in outs]
        gts = [T(g) for g in gs]
        sg0 = snap(gs)
        try:
            for o, gt in zip(outs, gts):
                o.backward(gt)
        except Exception:
            mon.drain()
            return {"counters": dict(counters, backward_rejected=1)}
        counters["backward_snapshots"] = 1
        if op.name != "dropout" and case["seed"] % 3 != 1:
            # the same sweep over the same graph once more (gradients reset in between, same upstream tensors): bit-identical gradients
            try:
                lv_ = [t for t in ts if t.requires_grad and t.grad_fn is None and t._grad is not None]
                uniq_ = []
                for t in lv_:
                    if not any(t is u for u in uniq_):
                        uniq_.append(t)
                g1_ = [digest(t._grad) for t in uniq_]
                for t in uniq_:
                    t._grad = None
                if case["seed"] % 2:
                    disturb(ns)
                for o, gt in zip(outs, gts):
                    o.backward(gt)
                counters["repeated_sweep_digests"] = 1
                g2_ = [None if t._grad is None else digest(t._grad) for t in uniq_]
                if g1_ != g2_:
                    viol.append(V(f"{sig}:repeated-backward-not-bit-identical", "a second backward sweep over the same graph (gradients reset in between, same upstream "
                                  "gradient) gave other bits than the first", args=a))
            except Exception as e:
                viol.append(V(f"{sig}:repeated-backward-raises", f"a second backward sweep over the same graph raised {type(e).__name__}", error=str(e)[:160], args=a))
        # the result is the operand of whatever the caller computes from it next: backward must leave its data as the forward returned it
        with np.errstate(all="ignore"):
            if any(o.data.shape != p.shape or o.data.dtype != p.dtype or not np.array_equal(o.data, p, equal_nan=True) for p, o in zip(first, outs)):
                viol.append(V(f"{sig}:backward-modified-result", "backward changed the data of the op's result (an operand of every later op that uses it)", args=a))
        rebound = [i for i, (t, d0, dt0) in enumerate(held) if changed_contents(t, d0, dt0)]
        if rebound and not any(v["sig"].endswith("forward-rebound-operand-data") for v in viol):
            viol.append(V(f"{sig}:backward-rebound-operand-data", f"backward replaced the data array of operand {rebound[0]}", which=rebound, args=a))
        s1 = snap(watched)
        if s1 != s0:
            which = [i for i, (p, q) in enumerate(zip(s0, s1)) if p != q]
            viol.append(V(f"{sig}:backward-modified-" + ("operand" if which[0] < len(xs) else "bystander"), "backward changed the bytes of an operand/target or of a bystander",
                          which=which, storage=case["storage"], args=a))
        if snap(gs) != sg0:
            viol.append(V(f"{sig}:backward-modified-caller-gradient", "backward wrote into the upstream gradient supplied by the caller", args=a))
        # follow-up events that would expose aliasing between the caller's g / the operands and internal gradient buffers
        try:
            leaves = [t for t in ts if t.requires_grad and t.grad_fn is None]
            big = None
            for o in outs:
                term = (o * 1.5).sum()
                big = term if big is None else big + term
            big.backward()                                    # second sweep through a larger graph: re-accumulates into the same leaves
            for l in leaves:
                l.backward(T(np.ones(l.shape, dtype=dt)))     # backward directly on a leaf
            fl = [l for l in leaves if l.is_floating_point]
            if fl and all(l._grad is None or np.all(np.isfinite(l._grad)) for l in fl):       # (0 * inf = nan: an infinite derivative at the domain boundary would make the zero-lr step a real update)
                opt = ns.optim.SGD(fl, lr=0.0, momentum=0.9)
                opt.step(); big2 = (outs[0] * 1.0).sum(); big2.backward(); opt.step()
            counters["follow_up_sequences"] = 1
            if snap(gs) != sg0:
                viol.append(V(f"{sig}:caller-gradient-modified-by-later-accumulation", "the caller's upstream gradient array was written by later gradient accumulation (it is aliased to a gradient buffer)", args=a))
            if snap(watched[:len(xs)]) != s0[:len(xs)]:
                viol.append(V(f"{sig}:operand-modified-by-follow-up", "operand data changed during later backward / zero-lr optimizer steps", args=a))
            for l in leaves:
                l.zero_()
            if snap(watched[:len(xs)]) != s0[:len(xs)] or snap(gs) != sg0:
                viol.append(V(f"{sig}:zero_-modified-data", "zeroing gradients changed operand data or the caller's gradient", args=a))
        except Exception as e:
            counters["follow_up_rejected"] = 1
    viol += mon.drain()
    nontriv = case["storage"] != "plain"
    key = (sig, case["storage"], argclass, case["dtype"]) if nontriv else None
    return {"key": key, "viol": dedup(viol), "counters": dict(counters, result_aliases_operand=int(aliases)),
            "cover": {"ops": [sig], "storage": [case["storage"]]}}


def disturb(ns):
    """a fixed handful of unrelated library calls in both dtypes (what a program does between two uses of an op): none of them may change what
    a later call of another op returns"""
    T, sg, nn = ns.Tensor, ns.sg, ns.nn
    with np.errstate(all="ignore"):
        for dt_ in (np.float32, np.float64):
            p_ = T(np.array([[0.2, 0.7], [0.6, 0.4]], dtype=dt_), requires_grad=True)
            t_ = T(np.array([[0.0, 1.0], [1.0, 0.0]], dtype=dt_))
            z_ = T(np.array([[1.5, -2.0, 0.3], [0.1, 0.2, -0.7]], dtype=dt_), requires_grad=True)
            try:
                (sg.binary_cross_entropy(p_, t_).sum() + nn.BCELoss()(p_, t_) + sg.binary_cross_entropy_with_logits(p_, t_).sum() + nn.MSELoss()(p_, t_)).backward()
                (p_.log().sum() + p_.sqrt().sum() + (p_ ** 0.5).sum() + p_.exp().sum()).backward()
                (sg.softmax(z_, 1).sum() + sg.log_softmax(z_, 0).sum() + nn.CrossEntropyLoss()(z_, T(np.array([2, 0]))) + sg.selu(z_).sum() + sg.sigmoid(z_).max()).backward()
                sg.conv1d(z_.reshape((1, 2, 3)), T(np.ones((1, 2, 2), dtype=dt_)), None, 1, 1).sum().backward()
                sg.max_pool1d(z_.reshape((1, 2, 3)), 2, 1, 1).sum().backward()
                bn_ = nn.BatchNorm1d(3, dtype=dt_); bn_(z_).sum().backward(); bn_.eval(); bn_(z_)
                nn.Linear(3, 2)(T(z_.data.astype(np.float32))).sum().backward()
                sg.unfold(T(np.ones((1, 1, 3, 3), dtype=dt_)), 2, 1, 1, 1); z_.unfold(1, 2, 1).mean().backward()
            except Exception:
                pass


def dedup(viol):
    seen, out = set(), []
    for v in viol:
        if v["sig"] not in seen:
            seen.add(v["sig"]); out.append(v)
    return out


def run_program(ns, mon, case):
    T = ns.Tensor
    rng = gen.rng_for(case["seed"], "prog")
    prog, leaf_vals = programs.generate(rng, case["n_instr"], int(rng.integers(1, 5)), allow_kinks=True)
    prog = programs.fix_args(json.loads(json.dumps(prog)))
    xs = [np.array(v, dtype=np.float64).reshape(tuple(l["shape"])) for v, l in zip(leaf_vals, prog["leaves"])]
    # a bystander graph sharing no node
    bx = T(rng.standard_normal((2, 3)), requires_grad=True)
    bh = bx * bx
    bh.retain_grad()
    bout = bh.sum()
    bout.backward()
    ts = [T(x, requires_grad=l["req"]) for x, l in zip(xs, prog["leaves"])]
    try:
        vals = programs.run_library(ns, prog, ts)
    except Exception:
        mon.drain()
        return {"counters": {"forward_rejected": 1}}
    out = vals[prog["final"]]
    watched = xs + [bx.data, bx._grad, bh.data, bh._grad, bout.data] + [v.data for k, v in vals.items() if k >= len(xs)]
    s0 = snap(watched)
    if not out.requires_grad:
        return {"counters": {"final_no_grad": 1}}
    g = np.asarray(gen.upstream(rng, out.shape, "normal") if out.shape else np.array(1.7))
    gt = T(g)
    g0 = snap([g])
    del programs.LATE_MEMBERS[:-64]
    late0 = [id(m_) for m_ in programs.LATE_MEMBERS if m_._grad is not None]
    out.backward(gt)
    viol = []
    late_hit = [m_ for m_ in programs.LATE_MEMBERS if m_._grad is not None and id(m_) not in late0]
    if late_hit:
        viol.append(V("backward:gradient-given-to-a-tensor-outside-the-graph:list-member-added-after-the-call",
                      "a tensor that the caller appended to its list after concat / stack had returned received a gradient buffer from a backward call through that result"))
    s1 = snap(watched)
    if s1 != s0:
        which = [i for i, (p, q) in enumerate(zip(s0, s1)) if p != q]
        what = "leaf-data" if which[0] < len(xs) else ("bystander" if which[0] < len(xs) + 5 else "intermediate-data")
        viol.append(V(f"program:backward-modified-{what}", "a backward sweep changed tensor data or a bystander graph's data/gradients", which=which[:5]))
    if snap([g]) != g0:
        viol.append(V("program:backward-modified-caller-gradient", "the sweep wrote into the caller's upstream gradient"))
    out.backward(gt)
    if snap([g]) != g0 or snap(watched) != s0:
        viol.append(V("program:second-sweep-modified-data-or-caller-gradient", "a second backward call changed data or the caller's gradient"))
    viol += mon.drain()
    return {"key": ("program", programs.structural_hash(prog)), "viol": dedup(viol), "counters": {"program_sweeps": 2}, "cover": {"ops": ["program"]}}


def run_mutators(ns, mon, case):
    T, nn = ns.Tensor, ns.nn
    rng = gen.rng_for(case["seed"], "mut")
    np.random.seed(case["seed"] % 2 ** 32)
    viol = []
    n = 0
    x = T(rng.standard_normal((3, 4)), requires_grad=True)
    c = x.clone(); d = x.detach()
    n += 2
    if np.shares_memory(c.data, x.data):
        viol.append(V("clone:shares-storage", "clone() shares storage with its source"))
    if np.shares_memory(d.data, x.data):
        viol.append(V("detach:shares-storage", "detach() shares storage with its source"))
    x0 = T(rng.standard_normal((3, 4)))                  # a source that does not require grad (target, buffer, frozen parameter)
    with ns.sg.no_grad():
        x1 = x * 2.0
    for nm, src in (("non-requiring source", x0), ("result computed under no_grad", x1)):
        dd = src.detach(); cc = src.clone()
        n += 2
        if dd is src or np.shares_memory(dd.data, src.data):
            viol.append(V("detach:shares-storage", f"detach() of a {nm} shares storage with it"))
        if cc is src or np.shares_memory(cc.data, src.data):
            viol.append(V("clone:shares-storage", f"clone() of a {nm} shares storage with it"))
    before = x.data.copy()
    c.data[...] = 0; d.data[...] = 0
    if not np.array_equal(x.data, before):
        viol.append(V("clone-detach:write-through", "writing into clone()/detach() results changed the source"))
    # documented mutators change only what they document
    lin = nn.Linear(4, 3); other = nn.Linear(4, 3)
    inp = T(rng.standard_normal((5, 4)).astype(np.float32))
    tgt = T(rng.standard_normal((5, 3)).astype(np.float32))
    watched = [inp.data, tgt.data, other.weight.data, other.bias.data]
    s0 = snap(watched)
    opt = ns.optim.Adam(lin.parameters(), lr=0.01)
    loss = nn.MSELoss()(lin(inp), tgt)
    opt.zero_grad(); loss.backward()
    w0 = lin.weight.data.copy()
    gw = lin.weight._grad.copy()
    opt.step()
    n += 3
    if snap(watched) != s0:
        viol.append(V("optimizer-step:modified-non-parameter", "optimizer.step / zero_grad / backward changed inputs, targets or another layer's parameters"))
    if np.array_equal(lin.weight.data, w0):
        viol.append(V("optimizer-step:no-effect", "optimizer.step did not update the parameter"))
    if not np.array_equal(lin.weight._grad, gw):
        viol.append(V("optimizer-step:modified-gradient", "optimizer.step changed the parameter's gradient"))
    # a frozen parameter that still carries a gradient from before it was frozen lies outside every later graph
    fl = nn.Linear(4, 3)
    xin = T(rng.standard_normal((5, 4)).astype(np.float32), requires_grad=True)
    fl(xin).sum().backward()
    fl.freeze()
    stale = [None if p_._grad is None else p_._grad.copy() for p_ in fl.parameters()]
    xin2 = T(rng.standard_normal((5, 4)).astype(np.float32), requires_grad=True)
    (fl(xin2) * 3.0).sum().backward()
    n += 1
    for p_, s_ in zip(fl.parameters(), stale):
        if s_ is not None and (p_._grad is None or not np.array_equal(p_._grad, s_)):
            viol.append(V("backward:modified-gradient-of-frozen-parameter", "a backward call changed the gradient of a frozen parameter (a tensor outside the differentiated graph)"))
    t1 = T(np.ones((4, 6), dtype=np.float32)); t2 = T(np.ones((4, 6), dtype=np.float32))
    s_t2 = snap([t2.data])
    for f in (ns.init.uniform_, ns.init.normal_, ns.init.xavier_uniform_, ns.init.kaiming_normal_, ns.init.zeros_, ns.init.ones_):
        f(t1); n += 1
    ns.init.constant_(t1, 2.0)
    if snap([t2.data]) != s_t2:
        viol.append(V("init:modified-other-tensor", "an initialiser changed a tensor it was not given"))
    # a result computed under no_grad from tracked tensors is a constant: a later backward that uses it as an operand does not reach behind it
    src_a = T(rng.standard_normal((3,)).astype(np.float32), requires_grad=True)
    src_b = T(rng.standard_normal((3,)).astype(np.float32), requires_grad=True)
    earlier = (src_b * 3.0).sum()
    earlier.backward()
    gb0 = src_b._grad.copy()
    with ns.sg.no_grad():
        const1 = src_a * 2.0                 # direct result
        const2 = src_a * src_b               # direct result of two tracked tensors
    wq = T(rng.standard_normal((3,)).astype(np.float32), requires_grad=True)
    n += 1
    try:
        (ns.sg.mse_loss(wq * 1.5, const1).sum() + (wq * const2).sum()).backward()
        if src_a._grad is not None:
            viol.append(V("backward:reached-behind-a-no_grad-result", "a backward pass gave a gradient to a tensor that is only connected through a result computed under no_grad"))
        if src_b._grad is None or not np.array_equal(src_b._grad, gb0):
            viol.append(V("backward:changed-gradient-outside-the-graph", "a backward pass changed the gradient of a tensor outside the graph being differentiated (behind a no_grad result)"))
    except Exception as e:
        viol.append(V("backward:raises-with-no_grad-constant", f"backward raised {type(e).__name__} on a graph that uses a no_grad result as a constant", error=str(e)[:200]))
    # copy.deepcopy of a parameter / module that holds gradients: the copy owns its data AND its gradient buffer
    import copy as _copy
    lin_c = nn.Linear(3, 2)
    (lin_c(T(rng.standard_normal((4, 3)).astype(np.float32))).sum()).backward()
    g_before = [None if p_._grad is None else p_._grad.copy() for p_ in lin_c.parameters()]
    d_before = [p_.data.copy() for p_ in lin_c.parameters()]
    try:
        for cp in (_copy.deepcopy(lin_c), _copy.deepcopy(lin_c.weight)):
            cps = cp.parameters() if hasattr(cp, "parameters") else [cp]
            n += 1
            for q in cps:
                q.data[...] = q.data * 0.0 + 5.0
            tot_ = None
            for q in cps:
                t_ = (q * q).sum()
                tot_ = t_ if tot_ is None else tot_ + t_
            tot_.backward()
            if any(not np.array_equal(p_.data, d0) for p_, d0 in zip(lin_c.parameters(), d_before)):
                viol.append(V("deepcopy:shares-data", "writing into a deep copy changed the data of the original"))
            if any((p_._grad is None) != (g0 is None) or (g0 is not None and not np.array_equal(p_._grad, g0)) for p_, g0 in zip(lin_c.parameters(), g_before)):
                viol.append(V("deepcopy:shares-gradient-buffer", "a backward pass through a deep copy changed the .grad of the original (outside the graph being differentiated)"))
    except Exception as e:
        viol.append(V("deepcopy:raises", f"copy.deepcopy of a layer / parameter raised {type(e).__name__}", error=str(e)[:200]))
    # zero_ / zero_grad touch gradients only
    d0 = lin.weight.data.copy()
    lin.zero_grad(); lin.weight.zero_()
    if not np.array_equal(lin.weight.data, d0):
        viol.append(V("zero_grad:modified-data", "zeroing gradients changed parameter data"))
    # training batch norm: x, gamma, beta untouched; only running statistics may change
    bn = nn.BatchNorm1d(3)
    xb = rng.standard_normal((6, 3)).astype(np.float32)
    xt = T(xb, requires_grad=True)
    wb = [xb, bn.weight.data, bn.bias.data]
    sb = snap(wb)
    rm0 = bn.running_mean.data.copy()
    y = bn(xt); y.sum().backward()
    n += 1
    if snap(wb) != sb:
        viol.append(V("batch_norm-training:modified-input-or-affine", "training batch-norm changed x, gamma or beta"))
    if np.array_equal(bn.running_mean.data, rm0):
        viol.append(V("batch_norm-training:running-stats-not-updated", "training batch-norm did not update running statistics"))
    # outside a training forward the running statistics are never written: eval mode, also after tracking was switched off on the live module,
    # on a fresh module (no training forward yet) and across repeated eval forwards
    for fresh in (False, True):
        for toggle in (False, True):
            bn2 = nn.BatchNorm1d(3) if fresh else bn
            if toggle:
                bn2.track_running_stats = False
            holder = nn.Sequential(nn.Sequential(bn2))      # the mode is switched on a parent two levels up
            holder.train()
            holder.eval()
            rs = (bn2.running_mean.data.tobytes(), bn2.running_var.data.tobytes())
            for _ in range(3):
                y2 = bn2(T(rng.standard_normal((5, 3)).astype(np.float32), requires_grad=True)); y2.sum().backward()
            n += 1
            if (bn2.running_mean.data.tobytes(), bn2.running_var.data.tobytes()) != rs:
                viol.append(V("batch_norm-eval:running-stats-modified" + (":tracking-switched-off-after-construction" if toggle else "") + (":fresh-module" if fresh else ""),
                              "an eval-mode forward/backward changed the running statistics"))
            bn2.track_running_stats = True
            bn2.train()
    # inference-mode functional batch norm reads whatever statistics it is given and writes none - also when only one of the two is supplied
    for which in ("both", "mean-only", "var-only"):
        for mom in (0.1, 1.0):
            xb_ = rng.standard_normal((5, 3))
            rm_, rv_ = rng.standard_normal(3), rng.uniform(0.5, 2.0, 3)
            tm_, tv_ = T(rm_.copy()), T(rv_.copy())
            args_ = (T(xb_.copy(), requires_grad=True), T(np.ones(3)), T(np.zeros(3)), tm_ if which != "var-only" else None, tv_ if which != "mean-only" else None, False, mom)
            try:
                outs_ = []
                for _ in range(2):
                    with np.errstate(all="ignore"):
                        yb_ = ns.sg.batch_norm(*args_)
                        yb_.sum().backward()
                    outs_.append(yb_.data.copy())
                n += 1
                if not (np.array_equal(tm_.data, rm_) and np.array_equal(tv_.data, rv_)):
                    viol.append(V(f"batch_norm-inference:statistics-modified:{which}", "functional batch_norm(training=False) wrote into a running statistic it was given"))
                if not np.array_equal(outs_[0], outs_[1], equal_nan=True):
                    viol.append(V(f"batch_norm-inference:repeat-differs:{which}", "repeating functional batch_norm(training=False) on unchanged operands gave another result"))
                if not np.array_equal(args_[0].data, xb_):
                    viol.append(V(f"batch_norm-inference:modified-input:{which}", "functional batch_norm(training=False) changed its input"))
            except Exception:
                pass            # refusing a half-specified pair of statistics is fine
    # the caller's upstream gradient is read, never re-shaped or written - also when its shape is not exactly the root's (the call may refuse it)
    for rshape, sshapes in (((), [(1,), (1, 1)]), ((1,), [(), (1, 1)]), ((4, 1), [(4,), (1, 4), (4, 1, 1)]), ((1, 3), [(3,), (3, 1)]), ((2, 3), [(3, 2), (6,), (2, 3, 1), (1, 2, 3)])):
        for ss in sshapes:
            leaf_ = T(rng.standard_normal(rshape if rshape else ()), requires_grad=True)
            root_ = leaf_ * 2.0
            sarr_ = rng.standard_normal(ss)
            keep_ = sarr_.copy()
            seed_ = T(sarr_)
            alias_ = T(seed_.data)                     # another tensor over the same array
            sd0_ = seed_.data
            try:
                root_.backward(seed_)
            except Exception:
                pass
            n += 1
            if seed_.data is not sd0_ or tuple(seed_.shape) != tuple(ss) or tuple(sarr_.shape) != tuple(ss) or tuple(alias_.shape) != tuple(ss) or not np.array_equal(sarr_, keep_):
                viol.append(V("backward:caller-gradient-reshaped-or-modified", f"backward(seed) with a seed of shape {list(ss)} for a root of shape {list(rshape)} changed the caller's "
                              f"seed (now shape {list(seed_.shape)} / array shape {list(sarr_.shape)})"))
    # ... nor converted in place when its floating dtype differs from the root's
    for rdt, sdt in ((np.float32, np.float64), (np.float64, np.float32)):
        for shp_ in ((), (3,), (2, 2)):
            leaf_ = T(rng.standard_normal(shp_).astype(rdt), requires_grad=True)
            root_ = leaf_ * 2.0
            sarr_ = (rng.standard_normal(shp_) * 1.000000123).astype(sdt)
            keep_ = sarr_.copy()
            seed_ = T(sarr_)
            sd0_ = seed_.data
            try:
                root_.backward(seed_)
            except Exception:
                pass
            n += 1
            if seed_.data is not sd0_ or seed_.dtype != np.dtype(sdt) or sarr_.dtype != np.dtype(sdt) or not np.array_equal(sarr_, keep_) or not np.array_equal(seed_.data, keep_):
                viol.append(V("backward:caller-gradient-converted-in-place", f"backward(seed) with a {np.dtype(sdt).name} seed for a {np.dtype(rdt).name} root changed the caller's seed tensor "
                              f"(now {seed_.dtype}, same array: {seed_.data is sd0_})"))
    viol += mon.drain()
    return {"keys": [("mutators", i) for i in range(2)], "evals": n, "viol": dedup(viol), "counters": {"mutator_checks": n}}


def run_case(ns, mon, case):
    if case["kind"] in ("tensor", "nn"):
        return run_op_case(ns, mon, case)
    if case["kind"] == "program":
        return run_program(ns, mon, case)
    return run_mutators(ns, mon, case)


def setup(ns, tier, seed):
    mon = monitors.Monitors(ns)
    mon.install_kernel_sanitizer()
    return mon


def teardown(ns, mon):
    return {"counters": mon.take_counters()}


def finish(agg, tier):
    c = agg["counters"]
    return [f"zero-events:{k}" for k in ("forward_snapshots", "backward_snapshots", "repeat_digests", "follow_up_sequences", "program_sweeps",
                                         "mutator_checks") if not c.get(k)]
