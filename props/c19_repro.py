"""C19 — results are reproducible under manual_seed and independent of hash order / allocation layout / repetition (O5 digests + RngTap)."""
import json, os, subprocess, sys, tempfile
from harness import gen, runner

PID = "C19"
NEEDS_UTILS = False
RULE = ("seeded programs over the random-consuming APIs (rand/randn/normal/randint, every initialiser, layer constructors, Module.apply with a random initialiser, Dropout forward+backward, conv/pool training with non-tiling windows, one_hot_encode of string labels, "
        "split_dataset(shuffle=True), 3-10 training steps with SGD/Adam/AdamW on Sequential(Linear,BatchNorm1d,ReLU,Dropout,Linear) with a wide "
        "fan-in penalty, re-seeding a model that already exists) and unseeded random DAG programs with 40-term fan-in per leaf; each program runs in >= 6 fresh processes "
        "(PYTHONHASHSEED in {0,1,4242,random} x 0 or 1e5 junk objects allocated before import) and 2-3 times inside each process; SHA-256 over "
        "dtype, shape and bytes of every produced array must coincide; an RNG tap wraps numpy.random.default_rng/RandomState/SeedSequence, "
        "random.Random/SystemRandom and os.urandom and reports any generator constructed from library code without a seed. distinct key = "
        "(program kind, seed, parameters); non-trivial = the program draws random numbers or has fan-in >= 40")
RULE += (" Round 6: Dropout in training mode under no_grad (Monte-Carlo dropout), one graph differentiated four times with the same upstream-gradient tensor (bit-identical gradients per call).")
RULE += (" Added after the seeded rounds: programs reseed-existing-model, retrain-existing-model (new optimizers over the same parameters), split-arrays (the caller's arrays reused), train-conv, apply-init, onehot-strings, degenerate layer widths after polluted freed memory.")
ASSUMPTIONS = ["BLAS pinned to one thread in every child (thread-count dependent reduction order is outside the property)",
               "bit-identity is required across processes on this machine, not across machines"]
SHARD_TIMEOUT = {"quick": 900, "thorough": 3600}
SHARDS_PER_JOB = 1
ENVS = [("0", 0), ("1", 0), ("4242", 100000), ("random", 0), ("random", 100000), ("0", 100000)]


def gen_cases(tier, seed):
    rng = gen.rng_for(seed, "c19", tier)
    cases = []
    seeds = [0, 1, 2 ** 31 - 1, int(seed) + 12345]
    kinds = ["random-tensors", "initialisers", "layers", "dropout", "split", "split-arrays", "reseed-existing-model", "retrain-existing-model", "train-conv", "apply-init", "onehot-strings", "late-import-utils", "singular-points", "dropout-untracked", "repeat-backward", "mixed-dtype-join", "loader-random-transform"]
    reps = 2 if tier == "quick" else 8
    for rep in range(reps):
        for k in kinds:
            cases.append({"kind": k, "manual_seed": seeds[(rep + len(k)) % len(seeds)], "thrice": rep % 2 == 1})
        for opt in ("SGD", "Adam", "AdamW"):
            cases.append({"kind": "train", "opt": opt, "steps": int(rng.integers(3, 11)), "manual_seed": seeds[rep % len(seeds)]})
    for k in range(8 if tier == "quick" else 80):
        cases.append({"kind": "program", "pseed": int(rng.integers(2 ** 31)), "n_instr": int(rng.integers(5, 30)), "n_leaves": int(rng.integers(1, 5)),
                      "manual_seed": None})
    return cases


def V(sig, what, **detail):
    return {"sig": sig, "what": what, "detail": detail}


def run_case(ns, ctx, case):
    fd, path = tempfile.mkstemp(suffix=".json", dir=os.path.join(runner.VERIF, "out"))
    os.write(fd, json.dumps(case).encode()); os.close(fd)
    results = []
    viol = []
    counters = {"programs": 1}
    try:
        from concurrent.futures import ThreadPoolExecutor

        def child(e):
            hs, junk = e
            env = runner.worker_env({"PYTHONHASHSEED": hs, "VERIF_JUNK": str(junk)})
            return e, subprocess.run([runner.PY, "-m", "harness.repro_child", path], cwd=runner.VERIF, env=env, capture_output=True, text=True, timeout=600)
        with ThreadPoolExecutor(max_workers=3) as ex:
            outs = list(ex.map(child, ENVS))
        for (hs, junk), p in outs:
            counters["child_processes"] = counters.get("child_processes", 0) + 1
            if p.returncode != 0:
                if p.returncode < 0:
                    viol.append(V("repro:child-crashed", f"child died with signal {-p.returncode}", stderr=p.stderr[-500:]))
                else:
                    viol.append(V("repro:child-failed", "program raised in a child process", stderr=p.stderr[-800:], hashseed=hs))
                break
            results.append((hs, junk, json.loads(p.stdout.strip().splitlines()[-1])))
    finally:
        os.remove(path)
    if results and not viol:
        for hs, junk, r in results:
            counters["in_process_repeats"] = counters.get("in_process_repeats", 0) + 1
            if len({r["d1"], r["d2"], r["d3"]}) != 1:
                viol.append(V(f"repro:{case['kind']}:in-process-repeat-differs", "repeating the program in one process gave different digests"
                              + (" after manual_seed" if case.get("manual_seed") is not None else ""), hashseed=hs, digests=[r["d1"], r["d2"], r["d3"]]))
                break
        for hs, junk, r in results[:1]:
            counters["in_run_repetition_checks"] = counters.get("in_run_repetition_checks", 0) + (1 if case["kind"] == "repeat-backward" else 0)
            for msg in r.get("internal", []):
                viol.append(V(f"repro:{case['kind']}:repetition-dependent", msg, hashseed=hs))
        ds = {r["d1"] for _, _, r in results}
        counters["cross_process_comparisons"] = len(results) - 1
        if len(ds) != 1 and not viol:
            viol.append(V(f"repro:{case['kind']}:cross-process-digests-differ", "fresh processes (different PYTHONHASHSEED / allocation layout) gave different digests",
                          digests=[(hs, junk, r["d1"][:16]) for hs, junk, r in results]))
        for hs, junk, r in results[:1]:
            for cst in r["tap"]["constructions"]:
                counters["rng_constructions_in_library"] = counters.get("rng_constructions_in_library", 0) + 1
                if not cst["seeded"]:
                    viol.append(V("repro:unseeded-generator-in-library", f"library code constructed {cst['what']} without a seed at {cst['site']}"))
            for k, v in r["tap"]["draw_calls"].items():
                counters[f"rng_draws:{k}"] = counters.get(f"rng_draws:{k}", 0) + v
    key = json.dumps(case, sort_keys=True)
    seen, vv = set(), []
    for v in viol:
        if v["sig"] not in seen:
            seen.add(v["sig"]); vv.append(v)
    return {"key": key, "viol": vv, "counters": counters, "cover": {"program_kinds": [case["kind"]], "environments": [f"hashseed={h},junk={j}" for h, j in ENVS]}}


def finish(agg, tier):
    c = agg["counters"]
    return [f"zero-events:{k}" for k in ("child_processes", "in_process_repeats", "cross_process_comparisons") if not c.get(k)] + \
           ([] if any(k.startswith("rng_draws:") for k in c) else ["zero-events:rng-tap"])
