"""C14 — fused operations equal the compositions their documentation equates them with (O6 metamorphic identities)."""
import json
import numpy as np
from harness import gen, monitors, nncatalog
from harness.ref import nnref as R

PID = "C14"
RULE = ("the sixteen documented identities (CE=NLL.log_softmax, BCEwL=BCE.sigmoid, log_softmax=log.softmax, linear, addmm, conv1d/2d=unfold+matmul, "
        "max/avg pool=window extraction+max/mean, a-b, a/b, mean=sum/count, stack=concat(unsqueeze), unbind inverts stack, flatten=reshape, "
        "movedim adjacent=transpose, Neuron=Linear(.,1), Sequential=composition), each over its argument grid (geometries, dims, tuples, "
        "keepdims, ranks, reductions) with random operands and random upstream gradient; both sides are computed by the library from "
        "independent leaves; values compared with a forward-error bound, gradients to 1e-9 relative (1e-6 where a guard constant sits on one "
        "side). distinct key = (identity, arguments); non-trivial = result has > 1 element")
RULE += (' Added after the seeded rounds: both sides differentiated twice; zero biases; batched addmm; int / tuple kernel forms; Fortran-ordered operands for flatten; entries of a Sequential replaced after construction; slices of log-softmax / cross-entropy at levels 0, +-50, +-300, +-900; the mean identity on integer / bool tensors.')
RULE += (" Round 6 / reach monitor: proper subsets of operands requiring grad on both sides; pooling layers with the stride left at its default under dilation; Sequential in eval mode (still differentiable).")
ASSUMPTIONS = ["sigmoid/BCE pair and log(softmax) pair on moderate logits (|x|<=4) with tolerance 1e-6: one side contains the 1e-12 guard constants",
               "pooling identities use tie-free inputs so that both sides pick the same arg-max"]
SHARD_TIMEOUT = {"quick": 900, "thorough": 3600}
IDS = ["ce", "bcewl", "logsoftmax", "linear", "addmm", "conv2d", "conv1d", "maxpool2d", "avgpool2d", "maxpool1d", "avgpool1d", "sub", "div", "mean",
       "stack", "unbind", "flatten", "movedim", "neuron", "sequential"]


def gen_cases(tier, seed):
    rng = gen.rng_for(seed, "c14", tier)
    reps = 120 if tier == "quick" else 2500
    geos = nncatalog.geo1d(7)
    pgeos = nncatalog.geo1d(7, pool=True)
    cases = []
    for ident in IDS:
        for r in range(reps):
            c = {"id": ident, "seed": int(rng.integers(2 ** 31))}
            if ident in ("conv2d", "maxpool2d", "avgpool2d"):
                gg = geos if ident == "conv2d" else pgeos
                a, b = gg[int(rng.integers(len(gg)))], gg[int(rng.integers(len(gg)))]
                c.update(H=a[0], W=b[0], k=[a[1], b[1]], s=[a[2], b[2]], p=[a[3], b[3]], d=[a[4], b[4]], N=int(rng.integers(1, 3)), C=int(rng.integers(1, 3)),
                         cout=int(rng.integers(1, 3)), bias=bool(rng.integers(2)))
            elif ident in ("conv1d", "maxpool1d", "avgpool1d"):
                gg = geos if ident == "conv1d" else pgeos
                a = gg[int(rng.integers(len(gg)))]
                c.update(L=a[0], k=a[1], s=a[2], p=a[3], d=a[4], N=int(rng.integers(1, 3)), C=int(rng.integers(1, 3)), cout=int(rng.integers(1, 3)),
                         bias=bool(rng.integers(2)))
            if ident in ("conv2d", "conv1d") and r % 10 == 3:
                # pointwise (1x1) kernels with every stride combination, with and without bias: enumerated, not left to the draw
                combo = (r // 10) % 6
                if ident == "conv2d":
                    c.update(k=[1, 1], s=[[1, 1], [1, 2], [2, 1], [2, 2], [3, 2], [1, 1]][combo], p=[[0, 0], [0, 0], [0, 0], [1, 0], [0, 1], [1, 1]][combo], d=[1, 1],
                             H=int(rng.integers(2, 6)), W=int(rng.integers(2, 6)), bias=bool(combo % 2 == 0 or combo == 5))
                else:
                    c.update(k=1, s=[1, 2, 3, 1, 2, 1][combo], p=[0, 0, 0, 1, 1, 2][combo], d=1, L=int(rng.integers(2, 7)), bias=bool(combo % 2 == 0))
            if ident in ("conv2d", "conv1d", "maxpool2d", "avgpool2d", "maxpool1d", "avgpool1d") and r % 12 == 7:
                # a batch / channel count just above a power of two (work done in blocks: the last, partial block), small spatial extents
                c["N"] = [129, 200, 257, 65, 130][(r // 12) % 5]
                if ident in ("conv2d", "conv1d") and (r // 12) % 2:
                    c["N"], c["C"] = 2, [65, 130][(r // 24) % 2]
                c["size_class"] = "many-samples-or-channels"
            if ident in ("mean",):
                shp = [int(v) for v in rng.integers(1, 4, int(rng.integers(1, 5)))]
                rr = len(shp)
                ch = int(rng.integers(3))
                dim = None if ch == 0 else (int(rng.integers(-rr, rr)) if ch == 1 or rr == 1 else
                                            [int(v) - (rr if rng.random() < 0.5 else 0) for v in rng.choice(rr, int(rng.integers(2, rr + 1)), replace=False)])
                c.update(shape=shp, dim=dim, keepdims=bool(rng.integers(2)))
            elif ident in ("stack", "unbind"):
                shp = [int(v) for v in rng.integers(1, 4, int(rng.integers(1, 4)))]
                c.update(shape=shp, dim=int(rng.integers(-len(shp) - 1, len(shp) + 1)), n=int(rng.integers(1, 4)))
            elif ident in ("flatten", "movedim"):
                shp = [int(v) for v in rng.integers(1, 4, int(rng.integers(2, 5)))]
                rr = len(shp)
                if ident == "flatten":
                    s_, e_ = sorted(int(v) for v in rng.integers(0, rr, 2))
                    c.update(shape=shp, start=s_ - (rr if rng.random() < 0.5 else 0), end=e_ - (rr if rng.random() < 0.5 else 0))
                else:
                    i = int(rng.integers(0, rr - 1))
                    c.update(shape=shp, i=i - (rr if rng.random() < 0.5 else 0), up=bool(rng.integers(2)))
            elif ident in ("sub", "div"):
                tgt = [int(v) for v in rng.integers(1, 4, int(rng.integers(0, 4)))]
                pats = gen.broadcast_pairs(tgt)
                a, b = pats[int(rng.integers(len(pats)))]
                c.update(sa=a, sb=b)
            elif ident in ("ce",):
                c.update(N=int(rng.integers(1, 6)), C=int(rng.integers(2, 7)), reduction=["mean", "sum", "none"][r % 3])
            elif ident in ("bcewl",):
                c.update(shape=[int(v) for v in rng.integers(1, 4, int(rng.integers(1, 3)))], reduction=["mean", "sum", "none"][r % 3])
            elif ident == "logsoftmax":
                shp = [int(v) for v in rng.integers(1, 5, int(rng.integers(1, 4)))]
                c.update(shape=shp, dim=int(rng.integers(-len(shp), len(shp))))
            elif ident in ("linear", "neuron"):
                c.update(xshape=[int(v) for v in rng.integers(1, 4, int(rng.integers(2, 4) if ident == "linear" else 2))], out=int(rng.integers(1, 4)),
                         bias=bool(rng.integers(2)))
            elif ident == "addmm":
                m, k_, n = (int(v) for v in rng.integers(1, 4, 3))
                pats = gen.broadcast_patterns([m, n])
                c.update(m=m, k=k_, n=n, sa=pats[int(rng.integers(len(pats)))])
            elif ident == "sequential":
                c.update(n=int(rng.integers(0, 5)), width=int(rng.integers(1, 4)))
            cases.append(c)
    return cases


def V(sig, what, **detail):
    return {"sig": sig, "what": what, "detail": detail}


def run_case(ns, mon, c):
    sg, nn, T = ns.sg, ns.nn, ns.Tensor
    rng = gen.rng_for(c["seed"], "c14")
    ident = c["id"]
    tol_g = 1e-9
    tol_v = None

    def leaf(a):
        return T(np.array(a, dtype=np.float64), requires_grad=True)

    def both(arrs, fa, fb, tolv=None, tolg=None):
        """arrs: list of leaf arrays; fa/fb: functions of leaf tensors -> Tensor (or list of Tensors)"""
        # which operands require grad: all of them, or (every third case) a proper subset - the identity holds for whatever is being trained
        req = [True] * len(arrs)
        if c["seed"] % 3 == 1 and len(arrs) >= 2:
            sub_ = gen.rng_for(c["seed"], "reqsubset")
            req = [bool(sub_.integers(2)) for _ in arrs]
            if not any(req):
                req[int(sub_.integers(len(arrs)))] = True
        la = [T(np.array(a, dtype=np.float64), requires_grad=r_) for a, r_ in zip(arrs, req)]
        lb = [T(np.array(a, dtype=np.float64), requires_grad=r_) for a, r_ in zip(arrs, req)]
        oa, ob = fa(*la), fb(*lb)
        oa = list(oa) if isinstance(oa, (tuple, list)) else [oa]
        ob = list(ob) if isinstance(ob, (tuple, list)) else [ob]
        res = []
        if len(oa) != len(ob):
            return [("count", f"{len(oa)} vs {len(ob)} results")], 0
        nel = 0
        for x_, y_ in zip(oa, ob):
            nel = max(nel, x_.data.size)
            if x_.shape != y_.shape:
                res.append(("shape", f"shapes {list(x_.shape)} vs {list(y_.shape)}"))
                return res, nel
            sc = max(1.0, float(np.max(np.abs(x_.data))) if x_.data.size else 1.0)
            tv = (tolv or 1e-12) * sc * max(1, max(a.size for a in arrs) ** 0.5)
            if not np.allclose(x_.data, y_.data, rtol=tolv or 1e-12, atol=tv):
                res.append(("value", f"values differ by {float(np.max(np.abs(x_.data - y_.data))):.3g}"))
        if res:
            return res, nel
        if c["seed"] % 2 == 0:
            # before anything is differentiated, both forms are called once more on other values of the same shapes (the next batch, the second
            # tower): what the first calls saved for their backward is theirs
            try:
                with np.errstate(all="ignore"):
                    others_ = [T(np.array(a, dtype=np.float64) * -0.7 + 0.9) for a in arrs]
                    fa(*others_); fb(*[T(o_.data.copy()) for o_ in others_])
            except Exception:
                pass
        # each side is differentiated through those of its results that are differentiable (a result that only depends on operands not requiring
        # grad may carry the flag on one side and not on the other - stack/unbind - without any gradient being different)
        pairs_ = list(zip(oa, ob))
        gs_ = [rng.standard_normal(x_.shape) if x_.shape else np.array(float(rng.uniform(0.5, 2))) for x_, _ in pairs_]
        for (x_, y_), g in zip(pairs_, gs_):
            if x_.requires_grad:
                x_.backward(T(np.array(g)))
            if y_.requires_grad:
                y_.backward(T(np.array(g)))
        def cmp_grads(tag):
            for i, (p, q) in enumerate(zip(la, lb)):
                if not req[i]:
                    continue
                ga = np.zeros_like(p.data) if p.grad is None else p.grad.data
                gb = np.zeros_like(q.data) if q.grad is None else q.grad.data
                sc = max(1.0, float(np.max(np.abs(ga))) if ga.size else 1.0)
                if ga.shape != gb.shape or not np.allclose(ga, gb, rtol=tolg or tol_g, atol=(tolg or tol_g) * sc):
                    res.append((tag, f"gradient of operand {i} differs by {float(np.max(np.abs(ga - gb))) if ga.shape == gb.shape else 'shape'}"))
        cmp_grads("gradient")
        if not res:
            # both sides are differentiated a second time (gradient accumulation over the same graphs): they must still agree
            try:
                for x_, y_ in pairs_:
                    g = rng.standard_normal(x_.shape) if x_.shape else np.array(float(rng.uniform(0.5, 2)))
                    if x_.requires_grad:
                        x_.backward(T(np.array(g)))
                    if y_.requires_grad:
                        y_.backward(T(np.array(g)))
                cmp_grads("gradient-after-second-backward")
            except Exception as e:
                res.append(("second-backward-raises", f"{type(e).__name__}: {str(e)[:80]}"))
        return res, nel

    args = {k: v for k, v in c.items() if k not in ("seed", "id")}
    try:
        if ident == "ce":
            x = rng.uniform(-4, 4, (c["N"], c["C"])); t = T(rng.integers(0, c["C"], c["N"]))
            if c["seed"] % 3 == 0:
                x = x + rng.choice([0.0, 50.0, -300.0, 900.0, -900.0], (c["N"], 1))      # moderate logits inside every row, rows at very different levels
            red = c["reduction"]
            res, nel = both([x], lambda a: nn.CrossEntropyLoss(reduction=red)(a, t), lambda a: nn.NLLLoss(reduction=red)(sg.log_softmax(a, 1), t))
        elif ident == "bcewl":
            x = rng.uniform(-4, 4, tuple(c["shape"])); t = T(rng.uniform(0, 1, tuple(c["shape"])))
            if c["seed"] % 3 == 0:
                # hard labels held in a small integer / bool array (a mask): both sides see the same tensor
                idt_ = ["uint8", "int8", "bool", "int16", "int64", "uint16"][(c["seed"] // 3) % 6]
                t = T((rng.uniform(0, 1, tuple(c["shape"])) > 0.5).astype(idt_))
                args_extra = {"target_dtype": idt_}
            red = c["reduction"]
            if c["seed"] % 3 == 1:
                # soft targets that are learnable themselves (both sides get the target as a second operand)
                tv_ = rng.uniform(0.05, 0.95, tuple(c["shape"]))
                res, nel = both([x, tv_], lambda a, tt: nn.BCEWithLogitsLoss(reduction=red)(a, tt), lambda a, tt: nn.BCELoss(reduction=red)(sg.sigmoid(a), tt), 1e-6, 1e-6)
            else:
                res, nel = both([x], lambda a: nn.BCEWithLogitsLoss(reduction=red)(a, t), lambda a: nn.BCELoss(reduction=red)(sg.sigmoid(a), t), 1e-6, 1e-6)
        elif ident == "logsoftmax":
            x = rng.uniform(-4, 4, tuple(c["shape"]))
            if c["seed"] % 3 == 0 and len(c["shape"]) >= 2:
                oshape = list(c["shape"]); oshape[c["dim"]] = 1
                x = x + rng.choice([0.0, 50.0, -300.0, 900.0, -900.0], tuple(oshape))        # slices along `dim` at very different levels
            res, nel = both([x], lambda a: sg.log_softmax(a, c["dim"]), lambda a: sg.softmax(a, c["dim"]).log(), 1e-6, 1e-6)
        elif ident == "linear":
            xs = c["xshape"]
            bias0 = np.zeros((c["out"],)) if c["seed"] % 3 == 0 else rng.standard_normal((c["out"],))      # a bias that currently holds exact zeros
            arrs = [rng.standard_normal(tuple(xs)), rng.standard_normal((c["out"], xs[-1]))] + ([bias0] if c["bias"] else [])
            res, nel = both(arrs, lambda x, w, b=None: sg.linear(x, w, b), lambda x, w, b=None: (x @ w.transpose(0, 1) + b) if b is not None else x @ w.transpose(0, 1))
        elif ident == "addmm":
            sb_, sc_ = [(c["m"], c["k"]), (c["k"], c["n"])]
            if c["seed"] % 4 == 0:
                sb_, sc_ = [((c["m"], c["k"]), (2, c["k"], c["n"])), ((1, c["m"], c["k"]), (3, c["k"], c["n"])), ((2, c["m"], c["k"]), (c["k"], c["n"]))][c["seed"] // 4 % 3]
            arrs = [rng.standard_normal(tuple(c["sa"])), rng.standard_normal(sb_), rng.standard_normal(sc_)]
            res, nel = both(arrs, lambda a, b, cc: sg.addmm(a, b, cc), lambda a, b, cc: a + b @ cc)
        elif ident == "conv2d":
            N, C, H, W, k, s, p, d, co = c["N"], c["C"], c["H"], c["W"], c["k"], c["s"], c["p"], c["d"], c["cout"]
            lH, lW = R.out_len(H, k[0], s[0], p[0], d[0]), R.out_len(W, k[1], s[1], p[1], d[1])
            arrs = [rng.standard_normal((N, C, H, W)), rng.standard_normal((co, C, k[0], k[1]))] + ([rng.standard_normal((co,)) * (c["seed"] % 3 != 0)] if c["bias"] else [])

            def comp(x, w, b=None):
                cols = sg.unfold(x, tuple(k), tuple(d), tuple(s), tuple(p))           # (N, C*kH*kW, L)
                out = (w.reshape((co, -1)) @ cols).reshape((N, co, lH, lW))
                return out + b.reshape((1, co, 1, 1)) if b is not None else out
            res, nel = both(arrs, lambda x, w, b=None: sg.conv2d(x, w, b, tuple(s), tuple(p), tuple(d)), comp)
        elif ident == "conv1d":
            N, C, L, k, s, p, d, co = c["N"], c["C"], c["L"], c["k"], c["s"], c["p"], c["d"], c["cout"]
            lW = R.out_len(L, k, s, p, d)
            arrs = [rng.standard_normal((N, C, L)), rng.standard_normal((co, C, k))] + ([rng.standard_normal((co,)) * (c["seed"] % 3 != 0)] if c["bias"] else [])

            def comp1(x, w, b=None):
                cols = sg.unfold(x.unsqueeze(2), (1, k), (1, d), (1, s), (0, p))         # (N, C*k, lW)
                out = w.reshape((co, -1)) @ cols
                return out + b.reshape((1, co, 1)) if b is not None else out
            res, nel = both(arrs, lambda x, w, b=None: sg.conv1d(x, w, b, s, p, d), comp1)
        elif ident in ("maxpool2d", "avgpool2d"):
            N, C, H, W, k, s, p, d = c["N"], c["C"], c["H"], c["W"], c["k"], c["s"], c["p"], c["d"]
            lH, lW = R.out_len(H, k[0], s[0], p[0], d[0]), R.out_len(W, k[1], s[1], p[1], d[1])
            x = gen.values(rng, (N, C, H, W), "distinct" if rng.random() < 0.5 else "intvalued")      # half of the cases have tied maxima
            mx = ident == "maxpool2d"

            def compp(x_):
                cols = sg.unfold(x_, tuple(k), tuple(d), tuple(s), tuple(p), -np.inf if mx else 0).reshape((N, C, k[0] * k[1], lH * lW))
                red = cols.max(2) if mx else cols.mean(2)
                return red.reshape((N, C, lH, lW))
            f = sg.max_pool2d if mx else sg.avg_pool2d

            def short(v):          # the int shorthand for a square argument (every second case)
                return int(v[0]) if (v[0] == v[1] and c["seed"] % 2 == 0) else tuple(v)
            if c["seed"] % 3 == 0 and R.out_len(H, k[0], k[0], p[0], d[0]) >= 1 and R.out_len(W, k[1], k[1], p[1], d[1]) >= 1:
                # the layer form with its stride left at the default: the documented default is the kernel size (whatever the dilation)
                s = list(k)
                lH, lW = R.out_len(H, k[0], s[0], p[0], d[0]), R.out_len(W, k[1], s[1], p[1], d[1])
                cls_ = nn.MaxPool2d if mx else nn.AvgPool2d
                args_ = dict(c, layer_form_default_stride=True)
                res, nel = both([x], lambda x_: cls_(short(k), None, short(p), short(d))(x_) if c["seed"] % 2 else cls_(short(k), padding=short(p), dilation=short(d))(x_), compp)
            else:
                res, nel = both([x], lambda x_: f(x_, short(k), short(s), short(p), short(d)), compp)
        elif ident in ("maxpool1d", "avgpool1d"):
            N, C, L, k, s, p, d = c["N"], c["C"], c["L"], c["k"], c["s"], c["p"], c["d"]
            lW = R.out_len(L, k, s, p, d)
            x = gen.values(rng, (N, C, L), "distinct" if rng.random() < 0.5 else "intvalued")
            mx = ident == "maxpool1d"

            def compp1(x_):
                cols = sg.unfold(x_.unsqueeze(2), (1, k), (1, d), (1, s), (0, p), -np.inf if mx else 0).reshape((N, C, k, lW))
                return cols.max(2) if mx else cols.mean(2)
            f = sg.max_pool1d if mx else sg.avg_pool1d
            if c["seed"] % 3 == 0 and R.out_len(L, k, k, p, d) >= 1:
                s = k
                lW = R.out_len(L, k, s, p, d)
                cls_ = nn.MaxPool1d if mx else nn.AvgPool1d
                res, nel = both([x], lambda x_: cls_(k, None, p, d)(x_) if c["seed"] % 2 else cls_(k, padding=p, dilation=d)(x_), compp1)
            else:
                res, nel = both([x], lambda x_: f(x_, k, s, p, d), compp1)
        elif ident == "sub":
            arrs = [rng.standard_normal(tuple(c["sa"])), rng.standard_normal(tuple(c["sb"]))]
            res, nel = both(arrs, lambda a, b: a - b, lambda a, b: a + (-b))
        elif ident == "div":
            arrs = [rng.standard_normal(tuple(c["sa"])), gen.values(rng, tuple(c["sb"]), "pm_wellcond")]
            res, nel = both(arrs, lambda a, b: a / b, lambda a, b: a * b ** -1)
        elif ident == "mean":
            x = rng.standard_normal(tuple(c["shape"]))
            dim = tuple(c["dim"]) if isinstance(c["dim"], list) else c["dim"]
            ds = range(len(c["shape"])) if dim is None else ([dim] if isinstance(dim, int) else dim)
            cnt = int(np.prod([c["shape"][d_] for d_ in ds]))
            res, nel = both([x], lambda a: a.mean(dim, c["keepdims"]), lambda a: a.sum(dim, c["keepdims"]) / cnt)
            if c["seed"] % 3 == 0:
                # the same identity for integer / bool operands (labels, masks: `(pred == y).mean()`), values only
                xi = rng.integers(-5, 6, tuple(c["shape"])) if c["seed"] % 2 else (rng.integers(0, 2, tuple(c["shape"])) > 0)
                try:
                    ma = T(xi.copy()).mean(dim, c["keepdims"])
                    mb = T(xi.copy()).sum(dim, c["keepdims"]) * (1.0 / cnt)
                    if ma.shape != mb.shape or not np.allclose(np.asarray(ma.data, dtype=np.float64), np.asarray(mb.data, dtype=np.float64), rtol=1e-6, atol=1e-6):
                        res.append(("value", f"integer operand: mean {np.asarray(ma.data).ravel()[:3].tolist()} vs sum/count {np.asarray(mb.data).ravel()[:3].tolist()}"))
                except Exception:
                    pass
        elif ident == "stack":
            arrs = [rng.standard_normal(tuple(c["shape"])) for _ in range(c["n"])]
            d_ = c["dim"]
            res, nel = both(arrs, lambda *a: sg.stack(list(a), d_), lambda *a: sg.concat([t_.unsqueeze(d_) for t_ in a], d_ if d_ >= 0 else d_))
        elif ident == "unbind":
            shp = c["shape"]
            d_ = c["dim"]
            if not -len(shp) <= d_ < len(shp):
                d_ = d_ % len(shp)
            x = rng.standard_normal(tuple(shp))
            res, nel = both([x], lambda a: sg.stack(list(sg.unbind(a, d_)), d_), lambda a: a.clone())
            arrs = [rng.standard_normal(tuple(shp)) for _ in range(c["n"])]
            dd = c["dim"]
            r2, _ = both(arrs, lambda *a: list(sg.unbind(sg.stack(list(a), dd), dd)), lambda *a: [t_.clone() for t_ in a])
            res += r2
        elif ident == "flatten":
            shp = c["shape"]; rr = len(shp)
            s_, e_ = c["start"] % rr, c["end"] % rr
            new = shp[:s_] + [int(np.prod(shp[s_:e_ + 1]))] + shp[e_ + 1:]
            x = rng.standard_normal(tuple(shp))
            if c["seed"] % 2:
                res, nel = both([x], lambda a: a.flatten(c["start"], c["end"]), lambda a: a.reshape(tuple(new)))
            else:
                # the operand is a full axis reversal (a Fortran-ordered view): flatten still enumerates elements in row-major order
                perm = list(range(rr))[::-1]
                xt = np.ascontiguousarray(x.transpose(perm))

                def rev(a):
                    for i_ in range(rr // 2):
                        a = a.transpose(i_, rr - 1 - i_)
                    return a
                res, nel = both([xt], lambda a: rev(a).flatten(c["start"], c["end"]), lambda a: rev(a).reshape(tuple(new)))
        elif ident == "movedim":
            shp = c["shape"]; rr = len(shp)
            i = c["i"]; j = i + 1
            src, dst = (i, j) if c["up"] else (j, i)
            x = rng.standard_normal(tuple(shp))
            res, nel = both([x], lambda a: a.movedim(src, dst), lambda a: a.transpose(i, j))
        elif ident == "neuron":
            fin = c["xshape"][-1]
            x = rng.standard_normal(tuple(c["xshape"]))
            neu, lin = nn.Neuron(fin, bias=c["bias"]), nn.Linear(fin, 1, bias=c["bias"])
            w = rng.standard_normal((1, fin)).astype(np.float32); b = rng.standard_normal((1,)).astype(np.float32)
            if c["seed"] % 2 == 0:
                b = np.zeros((1,), dtype=np.float32)
            for m_ in (neu, lin):
                m_.weight.data = w.astype(np.float64).copy()
                if c["bias"]:
                    m_.bias.data = b.astype(np.float64).copy()
            res, nel = both([x], lambda a: neu(a), lambda a: lin(a))
            gp = [(neu.weight, lin.weight)] + ([(neu.bias, lin.bias)] if c["bias"] else [])
            for p_, q_ in gp:
                if p_.grad is None or q_.grad is None or not np.allclose(p_.grad.data, q_.grad.data, rtol=1e-9, atol=1e-9):
                    res.append(("gradient", "parameter gradients of Neuron and Linear(.,1) differ"))
        elif ident == "sequential":
            w_ = c["width"]
            layers = []
            for i in range(c["n"]):
                kind = int(rng.integers(4))
                layers.append([lambda: nn.Linear(w_, w_), lambda: nn.Tanh(), lambda: nn.Sigmoid(), lambda: nn.LeakyReLU(0.2)][kind]())
            if layers and rng.random() < 0.5:
                layers.insert(int(rng.integers(len(layers) + 1)), layers[int(rng.integers(len(layers)))])      # the same module object at two positions
            for l in layers:
                for p_ in l.parameters():
                    p_.data = rng.standard_normal(p_.shape)
            x = rng.standard_normal((3, w_))
            seq = nn.Sequential(*layers)
            if layers and c["seed"] % 4 == 2 and len({id(l_) for l_ in layers}) == len(layers):
                # the ordered-dict form; the caller then builds a second, longer container from the same dict and goes on editing the dict:
                # the first container stays the composition of the entries it was given
                from collections import OrderedDict as _OD
                od_ = _OD((f"stage{i_}", l_) for i_, l_ in enumerate(layers))
                seq = nn.Sequential(od_)
                twin_ = nn.Sequential(od_)
                twin_.register_module("head", nn.Tanh())
                od_["late"] = nn.Sigmoid()
                args = dict(args, ordered_dict_reused=True)
            if len(layers) >= 2 and c["seed"] % 3 == 0:
                # an entry of the container is replaced after construction: the composition is that of the entries in their positions
                keys_ = [k_ for k_, v_ in seq.__dict__.get("_submodules", {}).items()]
                if len(keys_) == len(layers):
                    i_ = int(rng.integers(len(layers) - 1))
                    new_ = [nn.Tanh(), nn.LeakyReLU(0.3), nn.Sigmoid()][int(rng.integers(3))]
                    if c["seed"] % 2:
                        setattr(seq, keys_[i_], new_)
                    else:
                        seq.register_module(keys_[i_], new_)
                    layers[i_] = new_
                    args = dict(args, replaced_entry=i_)

            def compose(a):
                for l in layers:
                    a = l(a)
                return a
            if c["seed"] % 4 == 1:
                seq.eval()                      # inference mode (saliency maps, adversarial inputs): still the composition, still differentiable
                args = dict(args, eval_mode=True)
            res, nel = both([x], lambda a: seq(a) * 1.0, lambda a: compose(a) * 1.0)
        else:
            raise KeyError(ident)
    except nncatalog.Reject:
        mon.drain()
        return {"counters": {"skipped_geometry": 1}}
    viol = [V(f"{ident}:{kind}-differs", f"the fused form and its documented composition disagree: {msg}", args=args) for kind, msg in res]
    viol += [v for v in mon.drain() if not v["sig"].startswith(("grad-dtype", "release"))]
    seen, vv = set(), []
    for v in viol:
        if v["sig"] not in seen:
            seen.add(v["sig"]); vv.append(v)
    return {"key": (ident, json.dumps(args, sort_keys=True)) if nel > 1 else None, "viol": vv, "counters": {"identities_checked": 1, f"id:{ident}": 1},
            "cover": {"identities": [ident]}}


def setup(ns, tier, seed):
    mon = monitors.Monitors(ns)
    mon.install_backward_trace()
    mon.install_stride_sanitizer()
    return mon


def teardown(ns, mon):
    return {"counters": mon.take_counters()}


def finish(agg, tier):
    c = agg["counters"]
    return [f"zero-events:id:{i}" for i in IDS if not c.get(f"id:{i}")]
