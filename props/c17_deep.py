"""C17 — backward scales to deep graphs (exactly-once, linear work, no recursion limit) and untracked computations keep no history."""
import gc, os, json, os, sys, weakref
import numpy as np
from harness import gen, monitors

PID = "C17"
RULE = ("chains of 1e3 / 1e4 / 5e4 (thorough 2e5) sequential ops of mixed kinds (scalar mul/add, neg, clone, reshape, transpose, unsqueeze/squeeze, "
        "tanh-free so that the exact gradient is the product of the factors), wide graphs (fan-in of 2000 terms), ladder graphs x<-x+x of depth "
        "60 (2^60 paths, 60 nodes), run at the interpreter's default recursion limit with the backward-trace monitor (every recorded op exactly "
        "once, consumer before operand); work measured as Python function calls during backward (sys.setprofile) at N and 2N ops - ratio must "
        "be <= 2.3 (also for a single op with N operands: stack / concat, and N-term sums); untracked loops of 1e3-1e5 updates inside no_grad (plain, with the carried value combined directly with a parameter, through F.linear), inside retain_grads and from operands that do not require grad with the live-tensor count "
        "(WeakSet registry, after gc.collect()) sampled every 10% - it must not grow; weak references to operands of untracked results must "
        "die. distinct key = (scenario, size, op mix seed); non-trivial = size >= 1000")
RULE += (' Added after the seeded rounds: detach()-separated segments, changing Python scalars, nested no_grad, backward() inside no_grad, matmul-only chains, dropout noise loops, roll-outs of a frozen model, a gradient argument that itself has 20000 recorded ops behind it, a bounded work probe (library source lines executed) on ladders of reused intermediates before the deep ladder is attempted, and (thorough only) CPU time at 1e5 / 4e5 ops.')
RULE += (" Round 6 / reach monitor: a rotating catalogue of 40 ops (views, element-wise, reductions, frozen bias-free layers, pooling, inference batch norm) applied to a named carried tensor in untracked loops, judged on live tensors and (loops >= 20000 updates) on traced memory held.")
ASSUMPTIONS = ["linearity is decided on counted Python calls, never on wall-clock time; the wall-clock watchdog only makes a run inconclusive",
               "thorough tier only: C-level super-linear work (invisible to call counts) is decided on CPU time (time.thread_time, gc disabled) of backward at 1e5 vs 4e5 ops; "
               "a ratio above 7 (linear: 4) is a violation only if a second independent measurement reproduces it",
               "bounded memory is decided on the number of live Tensor objects at quiescent points"]
SHARD_TIMEOUT = {"quick": 900, "thorough": 3600}
SHARDS_PER_JOB = 1


def gen_cases(tier, seed):
    rng = gen.rng_for(seed, "c17", tier)
    cases = []
    sizes = [1000, 10000, 50000] + ([200000] if tier == "thorough" else [])
    for n in sizes:
        for rep in range(2 if tier == "quick" else 4):
            if n >= 200000 and rep > 0:
                continue
            cases.append({"kind": "chain", "n": n, "seed": int(rng.integers(2 ** 31))})
    for n in (500, 2000):
        cases.append({"kind": "wide", "n": n, "seed": int(rng.integers(2 ** 31))})
    # deep graphs in which every step joins two recorded branches (residual updates h = h + f(h), gated sums): depth far beyond the recursion limit
    for n in (3000, 12000) + ((60000,) if tier == "thorough" else ()):
        for variant in ("h+h*c", "h*g+tanh(h)", "concat-halves"):
            cases.append({"kind": "residual", "n": n, "variant": variant, "seed": int(rng.integers(2 ** 31))})
    for n in (300, 5000, 20000):
        cases.append({"kind": "grad-with-history", "n": n, "seed": int(rng.integers(2 ** 31))})
    for depth in (10, 40, 60):
        cases.append({"kind": "ladder", "depth": depth, "seed": 0})
    for n in ((1500, 3000), (4000, 8000)) + (((20000, 40000),) if tier == "thorough" else ()):
        cases.append({"kind": "linear-cost", "n": n[0], "n2": n[1], "seed": int(rng.integers(2 ** 31))})
    for n in ((600, 1200), (1500, 3000)):
        cases.append({"kind": "linear-cost", "n": n[0], "n2": n[1], "shape": "retained-second-backward", "seed": int(rng.integers(2 ** 31))})
    # CPU time of backward at n and 4n ops (C-level super-linear work - degenerate hashing, list.insert(0, .) - is invisible to call and line
    # counts): moderate sizes in the quick tier, reported only when three independent measurements all exceed twice the linear ratio
    cases.append({"kind": "cpu-cost", "n": 8000, "n2": 32000, "reps": 3, "factor": 2.0, "seed": int(rng.integers(2 ** 31))})
    for n in ((400, 800), (1500, 3000)):
        for wop in ("stack", "concat", "sum-of-terms"):
            cases.append({"kind": "linear-cost", "n": n[0], "n2": n[1], "shape": "wide:" + wop, "seed": int(rng.integers(2 ** 31))})
    for n in (1000, 10000) + ((100000,) if tier == "thorough" else (30000,)):
        for mode in ("no_grad", "non-requiring", "detached-mix", "no_grad-with-parameter", "inside-retain_grads", "no_grad-linear", "changing-scalars",
                     "nested-no_grad", "backward-inside-no_grad",
                     "matmul-chain", "matmul-chain-no_grad-parameter", "dropout-noise", "frozen-net-rollout",
                     "concat-rolling-window", "stack-rolling-window", "linear-nobias-plain", "linear-nobias-frozen-no_grad",
                     "no_grad-object-made-earlier",
                     "catalogue-plain", "catalogue-no_grad") + (("catalogue-plain-each-alone", "catalogue-no_grad-each-alone") if n == 10000 else ()):
            cases.append({"kind": "untracked", "n": n, "mode": mode, "seed": int(rng.integers(2 ** 31))})
    cases.append({"kind": "weakref", "seed": 0})
    for n in (300, 1000) + ((3000,) if tier == "thorough" else ()):
        cases.append({"kind": "detach-segments", "n": n, "seed": int(rng.integers(2 ** 31))})
    if tier == "thorough":
        cases.append({"kind": "cpu-cost", "n": 100000, "n2": 400000, "seed": int(rng.integers(2 ** 31))})
    return cases


def V(sig, what, **detail):
    return {"sig": sig, "what": what, "detail": detail}


def build_chain(ns, x, n, rng):
    y = x
    factor = 1.0
    kinds = rng.integers(0, 7, n)
    for k in kinds:
        if k == 0:
            c = 1.0 + float(rng.uniform(-1e-4, 1e-4)); y = y * c; factor *= c
        elif k == 1:
            y = y + 0.001
        elif k == 2:
            y = -y; factor = -factor
        elif k == 3:
            y = y.clone()
        elif k == 4:
            y = y.reshape((y.shape[1], y.shape[0])) if y.ndim == 2 else y.reshape((2, 3))
        elif k == 5:
            y = y.transpose(0, 1).transpose(0, 1)
        else:
            y = y.unsqueeze(0).squeeze(0)
    return y, factor


def run_case(ns, mon, c):
    T, sg = ns.Tensor, ns.sg
    rng = gen.rng_for(c["seed"], "c17")
    viol, counters = [], {}
    kind = c["kind"]
    if kind == "chain":
        x = T(np.arange(1.0, 7.0).reshape(2, 3), requires_grad=True)
        y, factor = build_chain(ns, x, c["n"], rng)
        out = y.sum()
        inv0 = mon.counters.get("grad_fn_invocations", 0)
        if c["seed"] % 2:
            # a first call that is refused (seed of the wrong shape) leaves the graph as it was: the call that follows visits every recorded op once
            try:
                out.backward(T(np.ones((2, 2))))
            except RecursionError:
                pass
            except Exception:
                counters["refused_backward_first"] = 1
            if x._grad is not None:
                x._grad = None
            mon.drain()
            inv0 = mon.counters.get("grad_fn_invocations", 0)
        try:
            out.backward()
        except RecursionError as e:
            return {"viol": [V("deep-chain:RecursionError", f"backward raised RecursionError on a chain of {c['n']} ops at recursion limit {sys.getrecursionlimit()}")] + mon.drain(),
                    "counters": counters}
        except Exception as e:
            return {"viol": [V(f"deep-chain:{type(e).__name__}", f"backward raised {type(e).__name__} on a chain of {c['n']} ops", error=str(e)[:200])] + mon.drain(),
                    "counters": counters}
        inv = mon.counters.get("grad_fn_invocations", 0) - inv0
        counters["chain_ops_differentiated"] = c["n"]
        if x.grad is None or not np.allclose(x.grad.data, factor, rtol=1e-9):
            viol.append(V("deep-chain:wrong-gradient", f"gradient through a chain of {c['n']} ops is not the product of its factors",
                          got=None if x.grad is None else x.grad.data.ravel()[:3].tolist(), want=factor))
        nrec = c["n"] + int(np.sum(0))     # every op records exactly one function except the two double-ops
        key = ("chain", c["n"], c["seed"])
    elif kind == "residual":
        x = T(np.array([0.5, -0.25, 1.0, 2.0]), requires_grad=True)
        h = x * 1.0
        n = c["n"]
        var = c["variant"]
        for i in range(n):
            if var == "h+h*c":
                h = h + h * 1e-4
            elif var == "h*g+tanh(h)":
                h = h * 0.9999 + sg.tanh(h) * 1e-4
            else:
                h = sg.concat([h[:2] * 1.0001, h[2:] + h[:2] * 1e-5], 0)
        out = h.sum()
        inv0 = mon.counters.get("grad_fn_invocations", 0)
        try:
            out.backward()
        except RecursionError:
            return {"viol": [V("deep-chain:RecursionError:residual", f"backward raised RecursionError on {n} residual steps ({var}) at recursion limit {sys.getrecursionlimit()}")] + mon.drain(),
                    "counters": counters}
        except Exception as e:
            return {"viol": [V(f"deep-chain:{type(e).__name__}:residual", f"backward raised {type(e).__name__} on {n} residual steps ({var})", error=str(e)[:200])] + mon.drain(),
                    "counters": counters}
        counters["residual_steps_differentiated"] = n
        if x.grad is None or not np.all(np.isfinite(x.grad.data)) or (var == "h+h*c" and not np.allclose(x.grad.data, (1 + 1e-4) ** n, rtol=1e-9)):
            viol.append(V("deep-chain:wrong-gradient:residual", f"gradient through {n} residual steps ({var}) is wrong", got=None if x.grad is None else x.grad.data.tolist()))
        mv = mon.drain()
        return {"key": ("residual", n, var), "viol": viol + mv, "counters": counters, "cover": {"scenarios": [f"residual:{var}"]}}
    elif kind == "grad-with-history":
        # the gradient handed to backward() is itself the result of a long recorded computation: only its value matters
        x = T(np.arange(1.0, 7.0).reshape(2, 3), requires_grad=True)
        z = T(np.ones((2, 3)), requires_grad=True)
        v, _ = build_chain(ns, z, c["n"], rng)
        if v.shape != (2, 3):
            v = v.reshape((2, 3))
        y = x * 2.0
        try:
            y.backward(v)
        except RecursionError:
            return {"viol": [V("deep-chain:RecursionError:gradient-argument-with-history", f"backward(grad) raised RecursionError when grad is the result of {c['n']} recorded ops")] + mon.drain(),
                    "counters": counters}
        except Exception as e:
            return {"viol": [V(f"deep-chain:{type(e).__name__}:gradient-argument-with-history", f"backward(grad) raised {type(e).__name__} when grad has a recorded history", error=str(e)[:200])] + mon.drain(),
                    "counters": counters}
        counters["grad_with_history_ops"] = c["n"]
        if x.grad is None or not np.allclose(x.grad.data, 2.0 * v.data, rtol=1e-12):
            viol.append(V("deep-chain:wrong-gradient:gradient-argument-with-history", "backward(grad) with a recorded tensor as grad did not use its value"))
        if z._grad is not None:
            viol.append(V("deep-chain:gradient-argument-differentiated", "the graph behind the gradient argument received gradients from a backward call on another graph"))
        key = ("grad-with-history", c["n"])
        size = c["n"]
    elif kind == "wide":
        x = T(rng.standard_normal(5), requires_grad=True)
        total = None
        coef = 0.0
        for i in range(c["n"]):
            ci = float(rng.uniform(-1, 1)); coef += ci
            term = x * ci
            total = term if total is None else total + term
        total.sum().backward()
        counters["wide_terms"] = c["n"]
        if not np.allclose(x.grad.data, coef, rtol=1e-9, atol=1e-9):
            viol.append(V("wide-graph:wrong-gradient", f"gradient of a sum of {c['n']} terms of one tensor is wrong"))
        key = ("wide", c["n"])
    elif kind == "ladder":
        # reused intermediates (residual connections, h = h*a + h*b): first a bounded probe of the work done by the sweep - source lines executed
        # inside library frames, a deterministic count that also sees inline loops - at depths 8 and 12; only when that is linear is the deep
        # ladder attempted (a traversal that walks every path would need 2^depth steps there)
        def ladder(depth, form):
            x_ = T(np.array([1.0, -2.0]), requires_grad=True)
            y_ = x_
            for _ in range(depth):
                y_ = (y_ + y_) if form == "add-self" else (y_ * 0.5 + y_ * 0.25)
            return x_, y_.sum()
        root_dir = os.path.realpath(ns.root) + os.sep
        for form in ("add-self", "two-consumers"):
            lines = []
            for depth in (8, 12):
                x_, out_ = ladder(depth, form)
                cnt = [0]

                def local(frame, event, arg):
                    if event == "line":
                        cnt[0] += 1
                    return local

                def tracer(frame, event, arg):
                    return local if os.path.realpath(frame.f_code.co_filename).startswith(root_dir) else None
                sys.settrace(tracer)
                try:
                    getattr(mon, "orig_backward", ns.Tensor.backward)(out_)
                finally:
                    sys.settrace(None)
                lines.append(cnt[0])
            counters["ladder_cost_probes"] = counters.get("ladder_cost_probes", 0) + 1
            mon.drain()
            if lines[0] == 0:
                counters["ladder_cost_unobserved"] = 1
            elif lines[1] > 3.0 * lines[0]:
                # linear work: ratio <= 12/8 plus a constant; walking every path: 2^4 = 16
                return {"key": ("ladder", c["depth"]), "viol": [V(f"cost:super-linear:reused-intermediates:{form}",
                        f"the work of backward over a ladder of reused intermediates grows faster than linearly with its depth: {lines[0]} library lines "
                        f"at depth 8, {lines[1]} at depth 12 (the deep ladder of depth {c['depth']} was not attempted)")], "counters": counters,
                        "cover": {"scenarios": ["ladder"]}}
        x = T(np.array([1.0, -2.0]), requires_grad=True)
        y = x
        for _ in range(c["depth"]):
            y = y + y
        inv0 = mon.counters.get("grad_fn_invocations", 0)
        y.sum().backward()
        inv = mon.counters.get("grad_fn_invocations", 0) - inv0
        counters["ladder_depth"] = c["depth"]
        if inv != c["depth"] + 1:
            viol.append(V("ladder:invocation-count", f"ladder of depth {c['depth']} ran {inv} backward functions instead of {c['depth'] + 1}"))
        if not np.allclose(x.grad.data, 2.0 ** c["depth"]):
            viol.append(V("ladder:wrong-gradient", "gradient of x+x+... ladder is not 2^depth"))
        key = ("ladder", c["depth"])
    elif kind == "linear-cost":
        counts = []
        for n in (c["n"], c["n2"]):
            x = T(np.arange(1.0, 7.0).reshape(2, 3), requires_grad=True)
            if c.get("shape", "chain").startswith("wide:"):
                # one recorded op with n operands (or n terms feeding one accumulator)
                terms = [x * (1.0 + i * 1e-6) for i in range(n)]
                wop = c["shape"].split(":")[1]
                if wop == "stack":
                    y = sg.stack(terms, 0)
                elif wop == "concat":
                    y = sg.concat(terms, 0)
                else:
                    y = terms[0]
                    for t_ in terms[1:]:
                        y = y + t_
                del terms
            else:
                y, _ = build_chain(ns, x, n, gen.rng_for(c["seed"], "lin"))
            out = y.sum()
            cnt = [0]
            if c.get("shape") == "retained-second-backward":
                # every intermediate keeps its gradient (retain_grads) and the graph is differentiated a second time: the work of that second sweep
                # - counted in library source lines executed, so that Python-level scans show - is linear in the graph as well
                libroot = os.path.join(ns.root, "synapgrad")
                with sg.retain_grads():
                    getattr(mon, "orig_backward", ns.Tensor.backward)(out)

                    def tracer(frame, event, arg):
                        if not frame.f_code.co_filename.startswith(libroot):
                            return None
                        if event == "line":
                            cnt[0] += 1
                        return tracer
                    sys.settrace(tracer)
                    try:
                        getattr(mon, "orig_backward", ns.Tensor.backward)(out)
                    finally:
                        sys.settrace(None)
                counts.append(cnt[0])
                del y, out, x
                gc.collect()
                continue

            def prof(frame, event, arg):
                if event == "call":
                    cnt[0] += 1
            sys.setprofile(prof)
            try:
                getattr(mon, "orig_backward", ns.Tensor.backward)(out)     # the library's own sweep, without the trace monitor's walk
            finally:
                sys.setprofile(None)
            counts.append(cnt[0])
            del y, out, x
            gc.collect()
        ratio = counts[1] / max(1, counts[0])
        counters["cost_ratio_measurements"] = 1
        note = f"python calls during backward: {counts[0]} @ {c['n']} ops, {counts[1]} @ {c['n2']} ops, ratio {ratio:.3f}"
        if ratio > 2.3 * (c["n2"] / c["n"]) / 2:
            viol.append(V("cost:super-linear", "work done by backward grows faster than linearly with the number of recorded ops: " + note))
        mon.drain()
        if viol and c.get("shape"):
            viol[0]["sig"] = "cost:super-linear:" + c["shape"]
        return {"key": ("linear-cost", c["n"], c.get("shape", "chain")), "viol": viol, "counters": counters, "note": c.get("shape", "chain") + ": " + note,
                "cover": {"scenarios": ["linear-cost:" + c.get("shape", "chain")]}}
    elif kind == "untracked":
        n = c["n"]
        w = T(rng.standard_normal((1, 8) if c["mode"] == "no_grad-linear" else 8), requires_grad=(c["mode"] == "no_grad"))
        gfix = T(rng.standard_normal(8))
        par = T(rng.standard_normal(8) * 1e-3, requires_grad=True)          # a parameter that requires grad, used inside untracked loops
        W = T(np.eye(8) * 0.999, requires_grad=True)
        Wm = T(np.eye(8) * 0.5 + 0.0625, requires_grad=(c["mode"] == "matmul-chain-no_grad-parameter"))
        drop = ns.nn.Dropout(0.1); drop.train()
        net = ns.nn.Sequential(ns.nn.Linear(8, 8), ns.nn.Dropout(0.1), ns.nn.Tanh()); net.train(); net.freeze()
        Wl = T(np.eye(8) * 0.9)
        lin_nb = ns.nn.Linear(8, 8, bias=False); lin_nb.freeze()
        if c["mode"] in ("matmul-chain", "matmul-chain-no_grad-parameter", "dropout-noise", "frozen-net-rollout", "concat-rolling-window", "stack-rolling-window",
                         "linear-nobias-plain", "linear-nobias-frozen-no_grad"):
            w = T(np.full((1, 8), 0.125))
        samples = []
        early_ng = [sg.no_grad() for _ in range(c["n"] + 8)] if c["mode"] == "no_grad-object-made-earlier" else []
        mem_samples = []
        catalogue = None
        if c["mode"].startswith("catalogue"):
            # the carried value (a *named* tensor, like every layer parameter) passes through a rotating catalogue of ops - views, element-wise ops,
            # reductions, frozen bias-free layers, pooling, inference-mode batch norm - none of which records anything when nothing requires grad
            nn_ = ns.nn
            w = T(np.full((1, 8), 0.125), name="state")
            c1 = nn_.Conv1d(1, 1, 3, padding=1, bias=False); c1.freeze()
            c1b = nn_.Conv1d(1, 1, 3, padding=1); c1b.freeze()
            c2 = nn_.Conv2d(1, 1, 3, padding=1, bias=False); c2.freeze()
            bn_ = nn_.BatchNorm1d(8); bn_.eval(); bn_.freeze()
            lin_ = nn_.Linear(8, 8); lin_.freeze()
            kconst = T(np.array([[[0.25, 0.5, 0.25]]]), name="kernel")
            flat_ = nn_.Flatten()
            pool_ = [nn_.MaxPool1d(1), nn_.AvgPool1d(1), nn_.MaxPool2d(1), nn_.AvgPool2d(1)]
            catalogue = [
                lambda v: v.transpose(0, 1).transpose(0, 1), lambda v: v.reshape((8, 1)).reshape((1, 8)), lambda v: v.movedim(0, 1).movedim(1, 0),
                lambda v: v.flatten().unsqueeze(0), lambda v: v.unsqueeze(0).squeeze(0), lambda v: v[:, ::-1], lambda v: v.clone(), lambda v: sg.relu(v) + 0.01,
                lambda v: sg.tanh(v), lambda v: sg.sigmoid(v), lambda v: sg.softmax(v, 1), lambda v: sg.log_softmax(v, 1) * -0.1, lambda v: sg.selu(v), lambda v: sg.leaky_relu(v, 0.1),
                lambda v: c1(v.reshape((1, 1, 8))).reshape((1, 8)), lambda v: c1b(v.reshape((1, 1, 8))).reshape((1, 8)), lambda v: sg.conv1d(v.reshape((1, 1, 8)), kconst, None, 1, 1).reshape((1, 8)),
                lambda v: c2(v.reshape((1, 1, 2, 4))).reshape((1, 8)), lambda v: pool_[0](v.reshape((1, 1, 8))).reshape((1, 8)), lambda v: pool_[1](v.reshape((1, 1, 8))).reshape((1, 8)),
                lambda v: pool_[2](v.reshape((1, 1, 2, 4))).reshape((1, 8)), lambda v: pool_[3](v.reshape((1, 1, 2, 4))).reshape((1, 8)), lambda v: bn_(v), lambda v: sg.tanh(lin_(v)),
                lambda v: flat_(v.reshape((1, 2, 4))), lambda v: sg.concat([v[:, :4], v[:, 4:]], 1), lambda v: sg.stack(list(sg.unbind(v, 1)), 1), lambda v: v - v.mean(1, keepdims=True),
                lambda v: v / (v.sum() + 10.0), lambda v: sg.tanh(v @ Wl), lambda v: sg.addmm(v, v, Wl) * 0.5, lambda v: (v * v + 1.0).sqrt() - 1.0, lambda v: (v.exp() + 1.0).log() * 0.5,
                lambda v: v.max(1, keepdims=True) - v, lambda v: sg.unfold(v.reshape((1, 1, 2, 4)), (1, 1)).reshape((1, 8)), lambda v: sg.unfold_dim(v, 1, 8, 1).reshape((1, 8)) if hasattr(sg, "unfold_dim") else v,
                lambda v: 1.0 - v, lambda v: 2.0 ** v - 1.0, lambda v: -v, lambda v: v ** 2,
            ]
        losses = [(par * par).sum() * float(k_ + 1) for k_ in range(10)] if c["mode"] == "backward-inside-no_grad" else []     # built before the block, kept alive
        gc.collect()
        base = mon.live_count()

        def body(w):
            if catalogue is not None:
                k3 = body.k3 = getattr(body, "k3", -1) + 1
                return catalogue[k3 % len(catalogue)](w)
            if c["mode"] == "detached-mix":
                return (w * 0.999 + gfix * 0.001).detach() * 1.0
            if c["mode"] == "no_grad-with-parameter":
                return w + par                              # the loop-carried value is a direct operand together with a requiring parameter
            if c["mode"] == "no_grad-linear":
                return sg.linear(w, W)                      # (1,8) carried through a layer whose weight requires grad
            if c["mode"] in ("matmul-chain", "matmul-chain-no_grad-parameter"):
                return w @ Wm                               # a Markov chain p <- p @ T: the carried value only ever passes through matrix products
            if c["mode"] == "concat-rolling-window":
                return sg.concat([w[:, 1:], gfix.reshape((1, 8))[:, :1]], 1)     # window = concat([window[1:], newest]) of plain tensors
            if c["mode"] == "stack-rolling-window":
                rows = sg.unbind(w, 1)
                return sg.stack(list(rows[1:]) + [rows[0] * 0.5], 1)
            if c["mode"] in ("linear-nobias-plain", "linear-nobias-frozen-no_grad"):
                return sg.tanh(sg.linear(w, Wl) if c["mode"] == "linear-nobias-plain" else lin_nb(w))   # no bias, nothing requires grad
            if c["mode"] == "dropout-noise":
                return drop(w)                              # noise injection on a tensor that does not require grad
            if c["mode"] == "frozen-net-rollout":
                return net(w)                               # roll-out of a frozen model that contains a Dropout layer
            if c["mode"] == "no_grad-object-made-earlier":
                k4 = body.k4 = getattr(body, "k4", -1) + 1
                with early_ng[k4 % len(early_ng)]:          # context objects created long ago (while tracking was on; each entered once), used inside the loop's no_grad block
                    stat = (w * w).sum()
                return w * 0.999 + par * (0.001 + 0.0 * float(stat.data))
            if c["mode"] == "nested-no_grad":
                with sg.no_grad():                          # a helper that wraps itself in no_grad, called from an evaluation loop
                    stat = (w * w).sum()
                return w * 0.999 + par * (0.001 + 0.0 * float(stat.data))      # ... and the outer block goes on with a requiring operand
            if c["mode"] == "backward-inside-no_grad":
                k2 = body.k2 = getattr(body, "k2", 0) + 1
                if k2 % max(1, n // 12) == 1 and k2 // max(1, n // 12) < len(losses):
                    losses[k2 // max(1, n // 12)].backward()   # an update phase under no_grad that calls backward() on a loss built before the block
                return w * 0.99 + par * 0.01                # ... and goes on updating carried statistics that involve a parameter
            if c["mode"] == "changing-scalars":
                k_ = body.k = getattr(body, "k", 1) + 1     # running average with a different Python number at every step
                return w * (1.0 - 1.0 / k_) + gfix * (1.0 / k_) - 1e-3 / k_
            return w - gfix * 0.001
        step = max(1, n // 10)
        if c["mode"] == "inside-retain_grads":
            with sg.retain_grads():
                for i in range(n):
                    w = body(w)
                    if (i + 1) % step == 0:
                        samples.append(mon.live_count() - base)
        elif c["mode"] in ("no_grad", "no_grad-with-parameter", "no_grad-linear", "nested-no_grad", "no_grad-object-made-earlier", "backward-inside-no_grad", "matmul-chain-no_grad-parameter", "linear-nobias-frozen-no_grad"):
            with sg.no_grad():
                for i in range(n):
                    w = body(w)
                    if (i + 1) % step == 0:
                        samples.append(mon.live_count() - base)
        elif catalogue is not None and c["mode"].endswith("-each-alone"):
            # every op of the catalogue alone, applied to its own result again and again (h = h.transpose(0, 1) in a loop): a reference from a
            # result to its operand that a mixed sequence would cut after one step shows here as a chain as long as the loop
            import contextlib
            reps_ = max(200, min(600, n // 20))
            with (sg.no_grad() if "no_grad" in c["mode"] else contextlib.nullcontext()), np.errstate(all="ignore"):
                for k_op, op_ in enumerate(catalogue):
                    v_ = T(np.full((1, 8), 0.125), name="state")
                    for i in range(5):
                        v_ = op_(v_)
                    gc.collect()
                    b0 = mon.live_count()
                    mid_ = None
                    for i in range(reps_):
                        v_ = op_(v_)
                        if i == reps_ // 2:
                            mid_ = mon.live_count() - b0
                    end_ = mon.live_count() - b0
                    samples.append(end_)
                    if end_ - mid_ > 8 or end_ > 24:
                        viol.append(V(f"untracked:live-tensors-grow:{c['mode']}", f"live Tensor objects grow when catalogue op #{k_op} is applied to its own result {reps_} times "
                                      f"without tracking ({mid_} extra live tensors half-way, {end_} at the end)", n=reps_, op_index=k_op))
                        break
                    if v_.requires_grad or v_.grad_fn is not None:
                        viol.append(V("untracked:result-tracks-history", f"catalogue op #{k_op}: a result of an untracked computation requires grad / has a grad_fn"))
                        break
            w = v_
            counters["single_op_loops"] = len(samples)
        elif catalogue is not None:
            import tracemalloc, contextlib
            with (sg.no_grad() if c["mode"] == "catalogue-no_grad" else contextlib.nullcontext()), np.errstate(all="ignore"):
                for i in range(2 * len(catalogue)):          # warm-up: every op once (lazy imports, caches filled at first use)
                    w = body(w)
                gc.collect()
                base = mon.live_count()
                tracemalloc.start()
                for i in range(n):
                    w = body(w)
                    if (i + 1) % step == 0:
                        gc.collect()
                        samples.append(mon.live_count() - base)
                        mem_samples.append(tracemalloc.get_traced_memory()[0])
                tracemalloc.stop()
        else:
            for i in range(n):
                w = body(w)
                if (i + 1) % step == 0:
                    samples.append(mon.live_count() - base)
        counters["untracked_updates"] = n
        counters["live_count_samples"] = len(samples)
        if w.requires_grad or w.grad_fn is not None:
            viol.append(V("untracked:result-tracks-history", "a result of an untracked computation requires grad / has a grad_fn"))
        if mem_samples:
            counters["traced_memory_samples"] = len(mem_samples)
            grow = mem_samples[-1] - mem_samples[len(mem_samples) // 2 - 1]           # bytes allocated and still held, second half of the loop
            iters = n - (len(mem_samples) // 2) * step
            # (interpreter / NumPy caches fill up during the first few thousand updates - measured on the unchanged tree: ~50 kB, flat after ~15000
            #  updates - so only loops of >= 20000 updates are judged, on their second half)
            if n >= 20000 and grow > 4096 + 1.0 * iters:
                viol.append(V(f"untracked:memory-grows:{c['mode']}", f"memory held after an untracked loop grows with its length ({c['mode']}): {grow} bytes over the last {iters} updates "
                              f"(traced bytes at ten points: {mem_samples})", n=n))
        if not c["mode"].endswith("-each-alone") and (max(samples) - min(samples) > 8 or max(samples) > 40):
            viol.append(V(f"untracked:live-tensors-grow:{c['mode']}", f"live Tensor objects grow with the length of an untracked loop ({c['mode']}): samples {samples}",
                          n=n))
        mon.drain()
        return {"key": ("untracked", c["mode"], n), "viol": viol, "counters": counters, "note": f"live-tensor deltas over {n} untracked updates ({c['mode']}): {samples}" + (f"; traced bytes {mem_samples}" if mem_samples else ""),
                "cover": {"scenarios": [f"untracked:{c['mode']}"]}}
    elif kind == "detach-segments":
        # truncated back-propagation: tracked segments separated by detach(); neither memory nor the work of a segment's backward may grow
        W = T(np.eye(6) * 0.9, requires_grad=True)
        h = T(rng.standard_normal((1, 6)))
        gc.collect()
        base = mon.live_count()
        live, work = [], []
        step = max(1, c["n"] // 10)
        for i in range(c["n"]):
            h2 = sg.tanh(sg.linear(h, W))
            loss = (h2 * h2).sum()
            cnt = [0]

            def prof(frame, event, arg):
                if event == "call":
                    cnt[0] += 1
            sys.setprofile(prof)
            try:
                loss.backward()
            finally:
                sys.setprofile(None)
            W.zero_()
            h = h2.detach()
            del h2, loss
            if (i + 1) % step == 0:
                live.append(mon.live_count() - base)
                work.append(cnt[0])
        counters["detach_segments"] = c["n"]
        counters["live_count_samples"] = len(live)
        if max(live) - min(live) > 8 or max(live) > 40:
            viol.append(V("untracked:live-tensors-grow:detach-segments", f"live Tensor objects grow over detach()-separated segments: {live}", n=c["n"]))
        if max(work) > 1.5 * min(work) + 50:
            viol.append(V("cost:segment-backward-grows-after-detach", f"Python calls of one segment's backward grow with the number of earlier (detached) segments: {work}"))
        mon.drain()
        return {"key": ("detach-segments", c["n"]), "viol": viol, "counters": counters, "note": f"detach segments n={c['n']}: live {live}, backward calls {work}",
                "cover": {"scenarios": ["detach-segments"]}}
    elif kind == "cpu-cost":
        # CPU time (thread_time, gc disabled) of backward on chains of n and 4n ops; used only in the thorough tier and only as a
        # violation when the super-linear ratio is reproduced by a second, independent measurement (C-level quadratic work such as
        # list.insert(0, .) is invisible to Python-call counts)
        import time

        def measure(n):
            x = T(np.arange(1.0, 7.0).reshape(2, 3), requires_grad=True)
            y, _ = build_chain(ns, x, n, gen.rng_for(c["seed"], "cpu", n))
            out = y.sum()
            gc.collect(); gc.disable()
            try:
                t0 = time.thread_time()
                getattr(mon, "orig_backward", ns.Tensor.backward)(out)
                return time.thread_time() - t0
            finally:
                gc.enable()
        ratios = []
        nrep, factor = int(c.get("reps", 2)), float(c.get("factor", 1.75))
        for rep in range(nrep):
            t1, t2 = measure(c["n"]), measure(c["n2"])
            ratios.append(t2 / max(t1, 1e-6))
            if ratios[-1] <= factor * (c["n2"] / c["n"]):
                break
        counters["cpu_cost_measurements"] = len(ratios)
        note = f"cpu time ratio backward({c['n2']})/backward({c['n']}) = {[round(r, 2) for r in ratios]} (linear: {c['n2'] / c['n']:.1f})"
        if len(ratios) == nrep and min(ratios) > factor * (c["n2"] / c["n"]):
            viol.append(V("cost:super-linear:cpu-time", "CPU time of backward grows faster than linearly with the graph size (reproduced twice): " + note))
        mon.drain()
        return {"key": ("cpu-cost", c["n"]), "viol": viol, "counters": counters, "note": note, "cover": {"scenarios": ["cpu-cost"]}}
    else:
        n = 0
        for mode in ("no_grad", "non-requiring"):
            x = T(np.ones(4), requires_grad=(mode == "no_grad"))
            other = T(np.ones(4))
            if mode == "no_grad":
                with sg.no_grad():
                    y = x * other
                    z = sg.relu(y) + 1.0
            else:
                y = x * other
                z = sg.relu(y) + 1.0
            rx, ry = weakref.ref(x), weakref.ref(y)
            del x, y
            gc.collect()
            n += 2
            if rx() is not None or ry() is not None:
                viol.append(V(f"untracked:operand-kept-alive:{mode}", f"an operand of an untracked result ({mode}) is kept alive by the result"))
            del z
        # a tracked result must keep its operands (sanity of the probe itself)
        x = T(np.ones(4), requires_grad=True); y = x * 2.0; z = y.sum()
        ry = weakref.ref(y); del y; gc.collect()
        if ry() is None:
            viol.append(V("tracked:operand-lost", "an intermediate of a tracked graph was freed before backward"))
        z.backward()
        counters["weakref_probes"] = n
        return {"keys": [("weakref", i) for i in range(2)], "viol": viol + mon.drain(), "counters": counters, "cover": {"scenarios": ["weakref"]}}
    mv = [v for v in mon.drain() if not v["sig"].startswith(("grad-dtype", "release"))]
    size = c.get("n", c.get("depth", 0))
    return {"key": key if (size >= 1000 or kind == "ladder") else None, "viol": viol + mv, "counters": counters, "cover": {"scenarios": [kind]}}


def setup(ns, tier, seed):
    mon = monitors.Monitors(ns)
    mon.install_backward_trace()
    mon.install_live_registry()
    return mon


def teardown(ns, mon):
    return {"counters": mon.take_counters()}


def finish(agg, tier):
    c = agg["counters"]
    return [f"zero-events:{k}" for k in ("chain_ops_differentiated", "cost_ratio_measurements", "live_count_samples", "weakref_probes", "ladder_depth",
                                         "grad_fn_invocations", "order_pairs_checked") if not c.get(k)]
