"""C13 — Dropout and BatchNorm honour train/eval mode over any call history (O3 BN model, O4 dropout statistics, O5 digests)."""
import hashlib, json, math
import numpy as np
from harness import gen, monitors
from harness.ref import nnref as R

PID = "C13"
RULE = ("BatchNorm1d/2d histories of 5-30 events over {train(), eval(), forward(batch of size 1..8), perturb running statistics} x momentum "
        "{0.1,0.5,1.0,None} x affine x track_running_stats x input rank 2/3/4 x dtype, compared event by event with the PyTorch rules "
        "(batch statistics + biased variance in training, exactly one EMA/CMA update with the unbiased variance and one counter increment per "
        "training forward, running statistics untouched and used in eval, repeated eval calls digest-identical); Dropout p in {0,0.1,0.3,0.5,0.9,1}: "
        "eval identity, training survivors = x/(1-p) to the dtype's rounding, zero rate and lag-1 row/column mask correlation in 6-sigma bands "
        "(n>=40000), per-position rate over 300 repeated calls, gradient = g*mask/(1-p); nested-mode scenario: Dropout / BatchNorm inside parent modules with diverging modes must follow the parent's last train()/eval(). distinct key = event-kind sequence + configuration; "
        "non-trivial = history has a mode switch and >= 2 training forwards (BN) / p in (0,1) (dropout)")
RULE += (' Added after the seeded rounds: momentum 0.0, eps in {1e-5, 1e-3, 0.5}, batches far from the origin, `track_running_stats` switched off on the live module, `Dropout.p` reassigned.')
RULE += (" Round 6 / reach monitor: training runs of 1100-1400 forwards on drifting data with cumulative and exponential averages (eval excursions in between).")
ASSUMPTIONS = ["BatchNorm training on one value per channel: raising is accepted (PyTorch raises); the counter may or may not have advanced (PyTorch "
               "advances it); what is asserted is that the buffers never become non-finite and otherwise stay as they were",
               "6-sigma bands for the dropout statistics; NumPy global generator seeded per case"]
SHARD_TIMEOUT = {"quick": 900, "thorough": 3600}


def gen_cases(tier, seed):
    rng = gen.rng_for(seed, "c13", tier)
    cases = []
    n = 2500 if tier == "quick" else 40000
    for k in range(n):
        rank = [2, 3, 4][k % 3]
        cases.append({"kind": "bn", "rank": rank, "C": int(rng.integers(1, 4)), "momentum": [0.1, 0.5, 1.0, None, 0.0][int(rng.integers(5))],
                      "affine": bool(rng.integers(2)), "track": bool(rng.random() < 0.75), "dtype": ["float32", "float64"][k % 2],
                      "eps": float(rng.choice([1e-5, 1e-3, 0.5, 1e-12])), "n_events": int(rng.integers(5, 31)), "seed": int(rng.integers(2 ** 31))})
    # long training runs (1100-1400 forwards on slowly drifting data): the cumulative / exponential average rules and the batch counter stay
    # right beyond 1000 batches (float64, so that the model comparison stays at 1e-10)
    for k in range(4 if tier == "quick" else 16):
        cases.append({"kind": "bn", "rank": [2, 3, 4, 2][k % 4], "C": 2, "momentum": [None, 0.01, None, 0.1][k % 4], "affine": bool(k % 2), "track": True,
                      "dtype": "float64", "eps": 1e-5, "n_events": int(rng.integers(1100, 1400)), "seed": int(rng.integers(2 ** 31)), "long": True})
    for k in range(6 if tier == "quick" else 60):
        cases.append({"kind": "nested-mode", "seed": int(rng.integers(2 ** 31)), "variant": k})
    for p in (0, 0.1, 0.3, 0.5, 0.9, 1, 0.002, 0.998):
        for dt in ("float32", "float64"):
            for rep in range(1 if tier == "quick" else 20):
                cases.append({"kind": "dropout", "p": p, "dtype": dt, "seed": int(rng.integers(2 ** 31)), "shape": [[200, 200], [50, 40, 20], [40000]][rep % 3]})
    return cases


def V(sig, what, **detail):
    return {"sig": sig, "what": what, "detail": detail}


def digest(a):
    return hashlib.sha256(np.ascontiguousarray(a).tobytes() + str(a.dtype).encode() + str(a.shape).encode()).hexdigest()


def run_bn(ns, c):
    nn, T = ns.nn, ns.Tensor
    rng = gen.rng_for(c["seed"], "bn")
    dt = np.dtype(c["dtype"])
    C = c["C"]
    cls = nn.BatchNorm2d if c["rank"] == 4 else nn.BatchNorm1d
    m = cls(C, eps=c["eps"], momentum=c["momentum"], affine=c["affine"], track_running_stats=c["track"], dtype=dt.type)
    if c["affine"]:
        m.weight.data = rng.uniform(0.5, 2.0, C).astype(dt)
        m.bias.data = rng.standard_normal(C).astype(dt)
    # model state
    rm = np.zeros(C) if c["track"] else None
    rv = np.ones(C) if c["track"] else None
    nbt = 0
    training = True
    viol, kinds, events = [], [], []
    counters = {"bn_histories": 1}
    ntrain_fw = 0
    switches = 0
    tol = 2e-4 if dt == np.float32 else 1e-10

    def check_buffers(after):
        if not c["track"]:
            if m.running_mean is not None or m.running_var is not None:
                viol.append(V("bn:buffers-without-tracking", "running statistics exist although track_running_stats=False"))
            return
        gm, gv = np.asarray(m.running_mean.data, dtype=np.float64), np.asarray(m.running_var.data, dtype=np.float64)
        counters["buffer_comparisons"] = counters.get("buffer_comparisons", 0) + 1
        if not (np.all(np.isfinite(gm)) and np.all(np.isfinite(gv))):
            viol.append(V("bn:non-finite-running-statistics", "running statistics became non-finite", after=after, events=events[-6:])); return
        if gm.shape != (C,) or gv.shape != (C,):
            viol.append(V("bn:running-statistics-shape", f"running statistics have shapes {gm.shape}/{gv.shape}", after=after)); return
        if not (np.allclose(gm, rm, rtol=tol, atol=tol) and np.allclose(gv, rv, rtol=tol, atol=tol)):
            which = "running_mean" if not np.allclose(gm, rm, rtol=tol, atol=tol) else "running_var"
            viol.append(V(f"bn:{which}-differs-from-model:{'cma' if c['momentum'] is None else 'ema'}:after-{after}",
                          f"{which} after {after} differs from the documented update rule", got=[gm.tolist(), gv.tolist()], want=[rm.tolist(), rv.tolist()],
                          events=events[-12:], n_events=len(events), config={k: c[k] for k in ("momentum", "affine", "track", "rank", "dtype")}))
        if int(m.num_batches_tracked) != nbt:
            viol.append(V(f"bn:batch-counter:after-{after}", f"num_batches_tracked={m.num_batches_tracked}, model {nbt}", events=events))

    for ev in range(c["n_events"]):
        r = rng.random()
        if c.get("long"):
            r = {397: 0.2, 399: 0.1}.get(ev % 400, 0.9)      # training forwards; every 400 events a short excursion: eval(), one eval forward, train()
        if r < 0.15:
            m.train(); kinds.append("train"); events.append("train()")
            switches += int(not training); training = True
        elif r < 0.30:
            m.eval(); kinds.append("eval"); events.append("eval()")
            switches += int(training); training = False
        elif r < 0.38 and c["track"]:
            rm = rng.standard_normal(C); rv = rng.uniform(0.25, 9.0, C)
            m.running_mean.data = rm.astype(dt); m.running_var.data = rv.astype(dt)
            rm, rv = m.running_mean.data.astype(np.float64), m.running_var.data.astype(np.float64)
            kinds.append("perturb"); events.append("perturb running stats")
        else:
            N = int(rng.integers(1, 9))
            shp = {2: (N, C), 3: (N, C, int(rng.integers(1, 4))), 4: (N, C, int(rng.integers(1, 3)), int(rng.integers(1, 3)))}[c["rank"]]
            x = (rng.standard_normal(shp) * 2 + 1).astype(dt)
            if c.get("long"):
                x = (rng.standard_normal(shp) * (1 + ev / 500.0) + ev / 200.0).astype(dt)        # drifting mean and spread
            elif rng.random() < 0.2:
                x = (rng.standard_normal(shp) * 1.0 + 300.0).astype(dt)      # a batch far from the origin (|mean|/std = 300)
            elif rng.random() < 0.15:
                x = (rng.standard_normal(shp) * 2e-5).astype(dt)             # a batch of tiny values (variance ~ 4e-10, far below the initial running variance 1)
            n_per = x.size // C
            use_batch = training or not c["track"]
            events.append(f"forward{list(shp)} training={training}")
            kinds.append("fw-train" if training else "fw-eval")
            snap = None if not c["track"] else (m.running_mean.data.tobytes(), m.running_var.data.tobytes(), int(m.num_batches_tracked))
            try:
                y = m(T(x.copy()))
                raised = None
            except Exception as e:
                y, raised = None, e
            counters["bn_forwards"] = counters.get("bn_forwards", 0) + 1
            if use_batch and n_per == 1:
                # degenerate: PyTorch raises; accept a raise (buffers untouched) or a finite answer; resynchronise the counter
                if c["track"]:
                    if (m.running_mean.data.tobytes(), m.running_var.data.tobytes()) != snap[:2] and raised is not None:
                        viol.append(V("bn:buffers-changed-by-rejected-forward", "a forward that raised changed the running statistics"))
                    if not (np.all(np.isfinite(m.running_mean.data)) and np.all(np.isfinite(m.running_var.data))):
                        viol.append(V("bn:non-finite-running-statistics", "one value per channel wrote non-finite running statistics", events=events[-4:]))
                    if raised is None:
                        # answered: then it must follow the rule with the unbiased variance undefined -> only finiteness asserted; resync model
                        rm, rv = m.running_mean.data.astype(np.float64), m.running_var.data.astype(np.float64)
                    nbt = int(m.num_batches_tracked) if int(m.num_batches_tracked) in (nbt, nbt + 1) else nbt
                continue
            if raised is not None:
                viol.append(V("bn:forward-raises", f"forward raised {type(raised).__name__} on a legal batch", shape=list(shp), training=training,
                              error=str(raised)[:200], events=events[-5:]))
                break
            g = m.weight.data.astype(np.float64) if c["affine"] else None
            b = m.bias.data.astype(np.float64) if c["affine"] else None
            f = None
            if training and c["track"]:
                nbt += 1
                f = 1.0 / nbt if c["momentum"] is None else c["momentum"]
            x64 = x.astype(np.float64)
            want, nm, nv = R.batch_norm(x64, g, b, rm, rv, use_batch, f if f is not None else 0.0, c["eps"])
            if training and c["track"]:
                rm, rv = nm, nv
                ntrain_fw += 1
            elif training:
                ntrain_fw += 1
            got = np.asarray(y.data, dtype=np.float64)
            sc = max(1.0, float(np.max(np.abs(want))))
            amp = max(1.0, float(np.max(np.abs(x64))) / 50.0)                   # float32 rounding of x is amplified by |x|/sigma
            # float32: the rounding of x (and of the mean), eps32*|x|, is divided by sqrt(var+eps); two nearly equal samples far from the origin
            # make that quotient large (seen in a thorough sweep: x ~ 300, sigma ~ 3e-3), so the bound follows the conditioning of the batch
            axes_ = tuple(i for i in range(x64.ndim) if i != 1)
            sig_min = float(np.sqrt(np.min(x64.var(axis=axes_) if use_batch else rv) + c["eps"]))
            cond = 16 * float(np.finfo(np.float32).eps) * float(np.max(np.abs(x64))) / sig_min
            otol = ((5e-4 * amp + cond) if dt == np.float32 else 1e-9) * sc
            if got.shape != want.shape or not np.allclose(got, want, rtol=0, atol=otol):
                viol.append(V(f"bn:output-differs:{'batch-stats' if use_batch else 'running-stats'}",
                              f"output in {'training' if training else 'eval'} mode is not the normalisation with the {'batch' if use_batch else 'running'} statistics",
                              events=events[-5:], config={k: c[k] for k in ("momentum", "affine", "track", "rank", "dtype")}))
            if y.dtype != dt:
                counters["routed_dtype"] = counters.get("routed_dtype", 0) + 1
            check_buffers("training-forward" if training else "eval-forward")
            if not training and c["track"]:
                # eval determinism: same input twice -> digest-identical output, buffers byte-identical
                y2 = m(T(x.copy()))
                counters["eval_digest_pairs"] = counters.get("eval_digest_pairs", 0) + 1
                if digest(y2.data) != digest(y.data):
                    viol.append(V("bn:eval-not-deterministic", "two eval calls on the same input gave different outputs"))
                if (m.running_mean.data.tobytes(), m.running_var.data.tobytes(), int(m.num_batches_tracked)) != snap:
                    viol.append(V("bn:eval-changed-buffers", "an eval-mode forward changed running statistics or the batch counter", events=events[-4:]))
        if len(viol) > 2:
            break
    if c["track"] and not viol:
        # an eval-mode forward on a batch of the *other* floating dtype (a float32 validation batch through a float64 layer or the reverse):
        # the running statistics keep their dtype and their bytes
        m.eval()
        other_ = np.float32 if dt == np.float64 else np.float64
        snap_o = (m.running_mean.data.dtype, m.running_var.data.dtype, m.running_mean.data.tobytes(), m.running_var.data.tobytes())
        shp_o = {2: (4, C), 3: (4, C, 2), 4: (4, C, 2, 1)}[c["rank"]]
        try:
            with np.errstate(all="ignore"):
                m(T(rng.standard_normal(shp_o).astype(other_)))
            counters["eval_forwards_other_dtype"] = 1
            if (m.running_mean.data.dtype, m.running_var.data.dtype, m.running_mean.data.tobytes(), m.running_var.data.tobytes()) != snap_o:
                viol.append(V("bn:eval-changed-buffers:input-of-other-dtype", "an eval-mode forward on a batch of the other floating dtype changed the dtype or the bytes of the running statistics"))
        except Exception:
            counters["eval_forward_other_dtype_refused"] = 1
        m.train() if training else m.eval()
        # tracking switched off on the live module (buffers exist): an eval-mode forward still leaves them alone
        m.track_running_stats = False
        m.eval()
        snap_ = (m.running_mean.data.tobytes(), m.running_var.data.tobytes())
        shp_ = {2: (4, C), 3: (4, C, 2), 4: (4, C, 2, 1)}[c["rank"]]
        try:
            m(T(rng.standard_normal(shp_).astype(dt)))
            counters["toggled_tracking_eval_forwards"] = 1
            if (m.running_mean.data.tobytes(), m.running_var.data.tobytes()) != snap_:
                viol.append(V("bn:eval-changed-buffers:tracking-switched-off-after-construction",
                              "an eval-mode forward changed the running statistics after track_running_stats was set to False on the module"))
        except Exception as e:
            viol.append(V("bn:forward-raises:tracking-switched-off-after-construction", f"forward raised {type(e).__name__}", error=str(e)[:200]))
    nontrivial = switches >= 1 and ntrain_fw >= 2
    cfg = [c["rank"], c["momentum"], c["affine"], c["track"], c["dtype"]]
    if c.get("long"):
        counters["bn_long_histories"] = 1
        counters["bn_long_history_max_batches"] = 0
        kinds = ["long", len(kinds), ntrain_fw > 1000]
    return {"key": json.dumps([cfg, kinds]) if nontrivial else None, "viol": dedup(viol), "counters": counters,
            "cover": {"bn_configs": [json.dumps(cfg[:4])], "event_kinds": sorted(set(k_ for k_ in kinds if isinstance(k_, str))),
                      "bn_long_runs": ([f"{ntrain_fw} training forwards, momentum={c['momentum']}"] if c.get("long") else [])}, "sample": {"case": c, "events": events[:20]}}


def dedup(viol):
    seen, out = set(), []
    for v in viol:
        if v["sig"] not in seen:
            seen.add(v["sig"]); out.append(v)
    return out


def run_dropout(ns, c):
    nn, T = ns.nn, ns.Tensor
    rng = gen.rng_for(c["seed"], "do")
    np.random.seed(c["seed"] % (2 ** 32))
    p = c["p"]
    dt = np.dtype(c["dtype"])
    shp = tuple(c["shape"])
    viol = []
    counters = {"dropout_cases": 1}
    m = nn.Dropout(p)
    x = (rng.standard_normal(shp) + 3.0).astype(dt)           # no zeros in x: y == 0 <=> dropped
    x[np.abs(x) < 0.1] = 1.0
    # eval: identity, deterministic
    m.eval()
    ye = m(T(x.copy()))
    if ye.shape != shp or not np.array_equal(ye.data, x):
        viol.append(V("dropout:eval-not-identity", "Dropout in eval mode changed its input", p=p))
    ye2 = m(T(x.copy()))
    if digest(ye2.data) != digest(ye.data):
        viol.append(V("dropout:eval-not-deterministic", "two eval calls differ", p=p))
    # training
    m.train()
    xt = T(x.copy(), requires_grad=True)
    y = m(xt)
    g = rng.standard_normal(shp).astype(dt)
    y.backward(T(g.copy()))
    yd = np.asarray(y.data)
    dropped = yd == 0
    n = x.size
    rate = float(dropped.mean())
    counters["dropout_elements"] = n
    if p == 0 and dropped.any():
        viol.append(V("dropout:p0-drops", "p=0 dropped elements", rate=rate))
    if p == 1 and not dropped.all():
        viol.append(V("dropout:p1-keeps", "p=1 kept elements", rate=rate))
    if 0 < p < 1:
        sd = math.sqrt(p * (1 - p) / n)
        if abs(rate - p) > 6 * sd:
            viol.append(V("dropout:zero-rate", f"fraction of zeroed elements {rate:.5f} outside the 6-sigma band around p={p}", n=n))
        # independence: lag-1 correlation of the mask along the last axis and along the first axis
        mk = dropped.astype(np.float64)
        for ax, nm in ((-1, "within-row"), (0, "across-rows")):
            if mk.shape[ax] < 3:
                continue
            a = np.take(mk, range(0, mk.shape[ax] - 1), axis=ax).ravel()
            b = np.take(mk, range(1, mk.shape[ax]), axis=ax).ravel()
            pr_ = min(p, 1 - p)
            if pr_ < 0.05:
                # rare class (p = 0.002 / 0.998): the sample correlation is far from normal there (three adjacent pairs of rare events among 40000
                # positions already exceed 6/sqrt(n); seen once in a thorough sweep on the unchanged tree).  Exact test instead: the number of
                # adjacent positions that are both in the rare class is ~ Poisson(m * pr^2) under independence
                rare_a, rare_b = (a, b) if p < 0.5 else (1 - a, 1 - b)
                k_pairs = int(np.sum(rare_a * rare_b))
                mu_ = a.size * pr_ * pr_
                tail_, term_ = 1.0, math.exp(-mu_)
                for j_ in range(k_pairs):
                    tail_ -= term_
                    term_ *= mu_ / (j_ + 1)
                counters["correlation_tests"] = counters.get("correlation_tests", 0) + 1
                if k_pairs > 0 and tail_ < 1e-9:
                    viol.append(V(f"dropout:mask-correlated:{nm}", f"{k_pairs} adjacent pairs of rare-class positions {nm} where {mu_:.3g} are expected under independence (tail {tail_:.2g})", p=p))
            elif a.std() > 0 and b.std() > 0:
                r_ = float(np.corrcoef(a, b)[0, 1])
                counters["correlation_tests"] = counters.get("correlation_tests", 0) + 1
                if abs(r_) > 6 / math.sqrt(a.size):
                    viol.append(V(f"dropout:mask-correlated:{nm}", f"lag-1 correlation of the drop mask {nm} is {r_:.4f} (|r| should be < {6 / math.sqrt(a.size):.4f})", p=p))
        # whole rows/columns sharing one decision would show here as well
    surv = ~dropped
    if surv.any() and p < 1:
        eps = np.finfo(dt).eps
        want = x.astype(np.float64)[surv] / (1 - p)
        err = np.abs(yd.astype(np.float64)[surv] - want) / np.abs(want)
        counters["survivor_checks"] = int(surv.sum())
        if err.max() > 4 * eps:
            viol.append(V(f"dropout:survivor-scale:{dt.name}", f"surviving elements are not x/(1-p) to {dt.name} rounding (max rel err {err.max():.3g}, eps {eps:.3g})", p=p))
    gx = xt.grad
    if gx is None:
        viol.append(V("dropout:no-gradient", "input received no gradient"))
    else:
        gd = np.asarray(gx.data, dtype=np.float64)
        wantg = np.where(dropped, 0.0, g.astype(np.float64) / (1 - p) if p < 1 else 0.0)
        if gd.shape != wantg.shape or not np.allclose(gd, wantg, rtol=(1e-5 if dt == np.float32 else 1e-7), atol=1e-12):
            viol.append(V("dropout:gradient-mask", "input gradient is not g*mask/(1-p) with the mask used in the forward pass", p=p))
    # the same layer applied to a second input of the same shape (the other branch of a siamese pair, the next micro-batch) before the first
    # call is differentiated: each call back-propagates through the mask it used itself
    if 0 < p < 1:
        xa = T(x[:50].copy() if x.ndim == 1 else x[:4].copy(), requires_grad=True)
        xb = T((x[:50] if x.ndim == 1 else x[:4]).copy() * 1.5, requires_grad=True)
        ya = m(xa)
        yb = m(xb)
        ga = rng.standard_normal(ya.shape).astype(dt)
        drop_a, drop_b = np.asarray(ya.data) == 0, np.asarray(yb.data) == 0
        ya.backward(T(ga.copy()))
        yb.backward(T(ga.copy()))
        counters["second_call_before_backward"] = 1
        for nm_, xt_, dr_ in (("first", xa, drop_a), ("second", xb, drop_b)):
            want_ = np.where(dr_, 0.0, ga.astype(np.float64) / (1 - p))
            if xt_.grad is None or not np.allclose(np.asarray(xt_.grad.data, dtype=np.float64), want_, rtol=(1e-5 if dt == np.float32 else 1e-7), atol=1e-12):
                viol.append(V("dropout:gradient-mask:second-call-before-backward", f"two calls of one Dropout layer on equal-shaped inputs, differentiated afterwards: the {nm_} "
                              "call's input gradient is not g*mask/(1-p) with the mask that call used", p=p))
                break
    # per-position rate over repeated calls on a small tensor
    if 0 < p < 1:
        small = T(np.ones((4, 5), dtype=dt))
        K = 300
        cnt = np.zeros((4, 5))
        for _ in range(K):
            cnt += (m(small).data == 0)
        counters["position_rate_checks"] = 20

        def tail(k_):
            """two-sided exact binomial tail probability of seeing a count as extreme as k_ out of K (the normal band is wrong for p near 0 or 1)"""
            pm = [math.comb(K, j) * p ** j * (1 - p) ** (K - j) for j in range(K + 1)]
            return min(1.0, 2 * min(sum(pm[:int(k_) + 1]), sum(pm[int(k_):])))
        if any(tail(k_) < 1e-9 for k_ in cnt.ravel()):
            viol.append(V("dropout:per-position-rate", "some position is dropped with a frequency outside the 6-sigma band around p over repeated calls", p=p,
                          rates=(cnt / K).tolist()))
    # a drop-rate schedule: `p` is a public attribute (read at every call, as in PyTorch); after reassigning it the layer is a Dropout(p2)
    if getattr(m, "p", None) == p and not viol:
        p2 = 0.5 if p not in (0.5,) else 0.2
        m.p = p2
        m.train()
        x2 = T(x.copy(), requires_grad=True)
        y2 = m(x2)
        y2.backward(T(g.copy()))
        d2 = np.asarray(y2.data) == 0
        counters["p_reassigned_checks"] = 1
        if abs(float(d2.mean()) - p2) > 6 * math.sqrt(p2 * (1 - p2) / n):
            viol.append(V("dropout:zero-rate:after-p-reassigned", f"after m.p = {p2} the fraction of zeroed elements is {float(d2.mean()):.5f}", p=p, p2=p2))
        s2 = ~d2
        if s2.any():
            want2 = x.astype(np.float64)[s2] / (1 - p2)
            err2 = np.abs(np.asarray(y2.data, dtype=np.float64)[s2] - want2) / np.abs(want2)
            if err2.max() > 4 * np.finfo(dt).eps:
                viol.append(V("dropout:survivor-scale:after-p-reassigned", f"after m.p = {p2} (constructed with p={p}) survivors are not x/(1-{p2}) "
                              f"(max rel err {err2.max():.3g})", p=p, p2=p2))
            gw = np.where(d2, 0.0, g.astype(np.float64) / (1 - p2))
            if x2.grad is None or not np.allclose(np.asarray(x2.grad.data, dtype=np.float64), gw, rtol=(1e-5 if dt == np.float32 else 1e-7), atol=1e-12):
                viol.append(V("dropout:gradient-mask:after-p-reassigned", f"after m.p = {p2} the input gradient is not g*mask/(1-{p2})", p=p, p2=p2))
    return {"key": ("dropout", p, c["dtype"], json.dumps(c["shape"])) if 0 < p < 1 else None, "viol": dedup(viol), "counters": counters,
            "cover": {"dropout_p": [str(p)]}}


def run_nested(ns, c):
    """mode-dependent layers inside a parent: whatever history of train()/eval() calls on parent and children, after parent.eval() every
    Dropout below it is the identity and every BatchNorm uses (and keeps) its running statistics; after parent.train() they are active"""
    nn, T = ns.nn, ns.Tensor
    rng = gen.rng_for(c["seed"], "nest")
    np.random.seed(c["seed"] % 2 ** 32)
    drop, bn = nn.Dropout(0.5), nn.BatchNorm1d(4)
    inner = nn.Sequential(nn.Linear(4, 4), drop)
    model = nn.Sequential(inner, bn)
    viol, events = [], []
    x = T((rng.standard_normal((64, 4)) + 3.0).astype(np.float32))
    n = 0
    # the first steps are scripted (a child left in the other mode than its parent, then the parent is switched to the mode it already has),
    # the rest are random
    script = [(model, False), (drop, True), (bn, True), (model, False), (model, True), (bn, False), (inner, False), (model, True)]
    for step in range(len(script) + int(rng.integers(3, 9))):
        if step < len(script):
            target, to_train = script[step]
        else:
            target = [model, inner, drop, bn][int(rng.integers(4))]
            to_train = bool(rng.integers(2))
        (target.train if to_train else target.eval)()
        events.append(f"{['model', 'inner', 'drop', 'bn'][[model, inner, drop, bn].index(target)]}.{'train' if to_train else 'eval'}()")
        if target is model:
            n += 1
            h = inner.submodules()[0](x)
            yd = drop(h)
            active = not np.array_equal(yd.data, h.data)
            if active != to_train:
                viol.append(V("nested-mode:dropout-mode-after-parent-switch", f"after the parent's {'train' if to_train else 'eval'}() the Dropout below it is "
                              f"{'active' if active else 'the identity'}", events=list(events)))
            before = (bn.running_mean.data.copy(), int(bn.num_batches_tracked))
            bn(T(rng.standard_normal((8, 4)).astype(np.float32)))
            changed = not np.array_equal(before[0], bn.running_mean.data) or before[1] != int(bn.num_batches_tracked)
            if changed != to_train:
                viol.append(V("nested-mode:batch-norm-mode-after-parent-switch", f"after the parent's {'train' if to_train else 'eval'}() the BatchNorm below it "
                              f"{'updated' if changed else 'did not update'} its running statistics", events=list(events)))
    return {"key": ("nested-mode", json.dumps(events)) if n else None, "viol": dedup(viol), "counters": {"nested_mode_probes": n}, "cover": {"event_kinds": ["nested-mode"]}}


def run_case(ns, mon, c):
    if c["kind"] == "nested-mode":
        r = run_nested(ns, c)
        r["viol"] = r.get("viol", []) + mon.drain()
        return r
    r = run_bn(ns, c) if c["kind"] == "bn" else run_dropout(ns, c)
    r["viol"] = r.get("viol", []) + [v for v in mon.drain() if not v["sig"].startswith(("grad-dtype", "release"))]
    return r


def setup(ns, tier, seed):
    mon = monitors.Monitors(ns)
    mon.install_kernel_sanitizer()
    return mon


def teardown(ns, mon):
    return {"counters": mon.take_counters()}


def finish(agg, tier):
    c = agg["counters"]
    return [f"zero-events:{k}" for k in ("bn_forwards", "buffer_comparisons", "eval_digest_pairs", "dropout_elements", "correlation_tests",
                                         "survivor_checks", "position_rate_checks") if not c.get(k)]
