"""C15 — weight initialisers fill the given tensor, in place, with the documented distribution (O4 statistical oracle)."""
import json, math
import numpy as np
from harness import gen

PID = "C15"
RULE = ("nine initialisers x shapes of rank 2-5 with >= 20000 elements and fan_in/fan_out >= 2 or <= 1/2 (rank >= 1 for plain fillers) x gains "
        "{0.5,1,5/3,sqrt2} x modes x nonlinearities x slopes {0,0.01,0.2,1} x dtype x requires_grad; sample mean / std judged in 6-sigma bands of "
        "the documented distribution (a failing band is re-sampled with 4x n before it is reported), uniform bounds by max|x| in [a(1-1e-3), a]; "
        "identity / shape / dtype / flag of the tensor object; calculate_gain and fan computation against a reference table; fresh Linear / "
        "Conv1d / Conv2d parameters pooled over constructions against U(-1/sqrt(fan_in), 1/sqrt(fan_in)). distinct key = (initialiser, shape, "
        "arguments, dtype); non-trivial = a random initialiser (constant fillers are counted as trivial)")
RULE += (' Added after the seeded rounds: NumPy-scalar hyper-parameters, calls under no_grad, fan_in = 1 layers, Fortran / strided tensors, small odd-fan shapes pooled over many fills, and independence of every fill from every other fill (storage, in-place update of an earlier fill, identical or correlated consecutive samples).')
RULE += (" Round 6 / reach monitor: documented parameters by keyword and by position; unknown modes / non-numeric slopes must be refused; Neuron and wide Linear layers; three repetitions per configuration in the quick tier.")
ASSUMPTIONS = ["6-sigma bands: false-alarm probability < 2e-9 per test; std of the sample std = sigma*sqrt((kurtosis-1)/(4n))",
               "NumPy's global generator is seeded from VERIF_SEED and the case seed"]
SHARD_TIMEOUT = {"quick": 900, "thorough": 3600}
SHAPES = [[300, 300], [257, 257], [200, 100], [100, 400], [50, 20, 5, 4], [64, 8, 7, 7], [300, 70], [40, 100, 5], [10, 20, 5, 5, 4], [400, 50], [32, 16, 3, 7], [16, 8, 2, 5, 3]]
RANDOM_INITS = ["uniform_", "normal_", "xavier_uniform_", "xavier_normal_", "kaiming_uniform_", "kaiming_normal_"]


def gen_cases(tier, seed):
    rng = gen.rng_for(seed, "c15", tier)
    cases = []
    reps = 3 if tier == "quick" else 60
    for rep in range(reps):
        for name in RANDOM_INITS + ["constant_", "ones_", "zeros_"]:
            for si, shp in enumerate(SHAPES):
                c = {"init": name, "shape": shp, "dtype": ["float32", "float64"][(si + rep) % 2], "req": bool((si + rep) % 3 == 0),
                     "storage": ["plain", "transposed-view", "zeros", "strided-view", "one-zero", "plain"][(si // 2 + rep + len(name)) % 6],
                     "seed": int(rng.integers(2 ** 31)), "np_scalar_args": bool((si + rep + len(name)) % 4 == 0),
                     "under_no_grad": bool((si + rep) % 3 == 0)}
                if name == "uniform_":
                    a = float(rng.uniform(-3, 1)); c["args"] = {"a": a, "b": a + float(rng.uniform(0.1, 4))}
                elif name == "normal_":
                    c["args"] = {"mean": float(rng.uniform(-2, 2)), "std": float(rng.choice([0.02, 0.5, 1.0, 3.0]))}
                elif name.startswith("xavier"):
                    c["args"] = {"gain": float(rng.choice([0.5, 1.0, 5.0 / 3, math.sqrt(2)]))}
                elif name.startswith("kaiming"):
                    nl = ["leaky_relu", "relu", "tanh", "linear", "sigmoid", "selu", "conv2d"][int(rng.integers(7))]
                    c["args"] = {"a": float(rng.choice([0, 0.01, 0.2, 1])), "mode": ["fan_in", "fan_out"][int(rng.integers(2))], "nonlinearity": nl}
                elif name == "constant_":
                    c["args"] = {"val": float(rng.uniform(-5, 5))}
                else:
                    c["args"] = {}
                cases.append(c)
        # every nonlinearity with a non-zero `a` (only leaky_relu may use it), both modes: enumerated, not left to the draw above
        for ki, (nl_, a_) in enumerate([("relu", 1.0), ("relu", 0.2), ("tanh", 0.2), ("selu", 1.0), ("sigmoid", 0.2), ("linear", 1.0), ("conv2d", 0.2),
                                        ("leaky_relu", 0.0), ("leaky_relu", 0.2), ("leaky_relu", 1.0)]):
            for name in ("kaiming_uniform_", "kaiming_normal_"):
                cases.append({"init": name, "shape": [[120, 90], [60, 30, 3, 3]][ki % 2], "dtype": ["float32", "float64"][(ki + rep) % 2], "req": False,
                              "seed": int(rng.integers(2 ** 31)), "storage": "plain",
                              "args": {"a": a_, "mode": ["fan_in", "fan_out"][(ki + rep) % 2], "nonlinearity": nl_}})
        # small tensors with an odd fan_in + fan_out (the formulas are exact there too): many fills pooled into one sample
        for name in ("xavier_uniform_", "xavier_normal_", "kaiming_uniform_", "kaiming_normal_", "uniform_", "normal_"):
            for shp in ([3, 4], [10, 1], [4, 3, 3], [2, 1, 3, 3], [5, 2]):
                c = {"init": name, "shape": shp, "dtype": ["float32", "float64"][(shp[0] + rep) % 2], "req": False, "seed": int(rng.integers(2 ** 31)),
                     "pool": 20000 // int(np.prod(shp)) + 1, "storage": "plain"}
                if name == "uniform_":
                    c["args"] = {"a": -0.5, "b": 1.5}
                elif name == "normal_":
                    c["args"] = {"mean": 1.0, "std": 0.02}
                elif name.startswith("xavier"):
                    c["args"] = {"gain": float(rng.choice([1.0, 5.0 / 3]))}
                else:
                    c["args"] = {"a": float(rng.choice([0, 0.2])), "mode": ["fan_in", "fan_out"][int(rng.integers(2))], "nonlinearity": "leaky_relu"}
                cases.append(c)
        for layer in ("Linear", "Neuron", "Linear-wide", "Conv1d", "Conv2d", "Linear-fan1", "Conv1d-fan1", "Conv2d-nonsquare", "Conv1d-dilated", "Conv2d-dilated-strided"):
            cases.append({"init": "layer:" + layer, "seed": int(rng.integers(2 ** 31)), "bias": True})
    cases.append({"init": "tables", "seed": 0})
    for shp in ([3], [7, 2], [2, 2, 2]):
        for name in ("uniform_", "normal_", "constant_", "ones_", "zeros_"):
            cases.append({"init": name, "shape": shp, "dtype": "float32", "req": False, "seed": int(rng.integers(2 ** 31)), "small": True,
                          "args": {"a": -1.0, "b": 2.0} if name == "uniform_" else ({"mean": 0.0, "std": 1.0} if name == "normal_" else ({"val": 2.5} if name == "constant_" else {}))})
    return cases


def V(sig, what, **detail):
    return {"sig": sig, "what": what, "detail": detail}


def ref_gain(nl, param):
    if nl in ("linear", "conv1d", "conv2d", "sigmoid"):
        return 1.0
    if nl == "tanh":
        return 5.0 / 3
    if nl == "relu":
        return math.sqrt(2.0)
    if nl == "leaky_relu":
        s = 0.01 if param is None else param
        return math.sqrt(2.0 / (1 + s * s))
    if nl == "selu":
        return 0.75
    raise ValueError(nl)


def ref_fans(shape):
    rf = 1
    for s in shape[2:]:
        rf *= s
    return shape[1] * rf, shape[0] * rf


def band_uniform(x, lo, hi):
    n = x.size
    sd = (hi - lo) / math.sqrt(12)
    out = []
    if x.min() < lo - 1e-6 * max(1, abs(lo)) or x.max() > hi + 1e-6 * max(1, abs(hi)):
        out.append(f"samples outside [{lo:.6g},{hi:.6g}]: min {x.min():.6g} max {x.max():.6g}")
    if abs(x.mean() - (lo + hi) / 2) > 6 * sd / math.sqrt(n):
        out.append(f"mean {x.mean():.6g} outside the 6-sigma band around {(lo + hi) / 2:.6g}")
    if abs(x.std() - sd) > 6 * sd * math.sqrt(0.8 / (4 * n)):
        out.append(f"std {x.std():.6g} outside the 6-sigma band around {sd:.6g}")
    w = hi - lo
    delta = min(0.5, 21.0 / n)            # P(no sample in the outer delta-fraction of the range) = (1-delta)^n <= 1e-9
    if x.max() < hi - delta * w or x.min() > lo + delta * w:
        out.append(f"range not filled: [{x.min():.6g},{x.max():.6g}] vs [{lo:.6g},{hi:.6g}]")
    return out


def band_normal(x, mean, std):
    n = x.size
    out = []
    if abs(x.mean() - mean) > 6 * std / math.sqrt(n):
        out.append(f"mean {x.mean():.6g} outside the 6-sigma band around {mean:.6g}")
    if abs(x.std() - std) > 6 * std * math.sqrt(2.0 / (4 * n)):
        out.append(f"std {x.std():.6g} outside the 6-sigma band around {std:.6g}")
    # shape of the distribution: fraction within one sigma ~ 0.6827
    frac = float(np.mean(np.abs(x - mean) < std))
    if abs(frac - 0.682689) > 6 * math.sqrt(0.6827 * 0.3173 / n):
        out.append(f"fraction within one sigma {frac:.4f} (normal: 0.6827)")
    return out


def run_case(ns, ctx, c):
    init, T, np_ = ns.init, ns.Tensor, np
    counters = {}
    viol = []
    name = c["init"]
    np.random.seed(c["seed"] % (2 ** 32))
    if name == "tables":
        n = 0
        for nl in ("linear", "conv1d", "conv2d", "sigmoid", "tanh", "relu", "selu"):
            n += 1
            if abs(init.calculate_gain(nl) - ref_gain(nl, None)) > 1e-12:
                viol.append(V(f"calculate_gain:{nl}", f"gain {init.calculate_gain(nl)} != {ref_gain(nl, None)}"))
        for s in (None, 0, 0.01, 0.2, 1, 2.5, -0.3):
            n += 1
            if abs(init.calculate_gain("leaky_relu", s) - ref_gain("leaky_relu", s)) > 1e-12:
                viol.append(V("calculate_gain:leaky_relu", f"gain for slope {s}: {init.calculate_gain('leaky_relu', s)} != {ref_gain('leaky_relu', s)}"))
        for bad in ("gelu", "softmax"):
            n += 1
            try:
                init.calculate_gain(bad)
                viol.append(V("calculate_gain:unsupported-answered", f"unsupported nonlinearity {bad} was answered"))
            except ValueError:
                pass
        for shp in ([3, 5], [5, 3], [4, 3, 2], [2, 3, 4, 5], [6, 2, 3, 1, 2], [1, 1], [7, 1, 3]):
            n += 1
            fi, fo = init._calculate_fan_in_and_fan_out(T(np.zeros(shp, dtype=np.float32)))
            if (int(fi), int(fo)) != ref_fans(shp):
                viol.append(V("fans:wrong", f"fans of {shp}: {(int(fi), int(fo))} != {ref_fans(shp)}"))
        # arguments the initialisers document as invalid must be refused, not answered with some default (reach monitor: never driven)
        for bad_slope in ("0.2", [0.2], True):
            n += 1
            try:
                g_ = init.calculate_gain("leaky_relu", bad_slope)
                if bad_slope is True:
                    pass            # PyTorch refuses bools; a number-like answer for True is not asserted either way
                else:
                    viol.append(V("calculate_gain:invalid-slope-answered", f"negative_slope {bad_slope!r} was answered with {g_!r}"))
            except (ValueError, TypeError):
                pass
        for fn_name in ("kaiming_uniform_", "kaiming_normal_"):
            for bad_mode in ("fan_avg", "FAN_IN", ""):
                n += 1
                w_ = T(np.full((4, 6), 7.0, dtype=np.float32))
                try:
                    getattr(init, fn_name)(w_, mode=bad_mode)
                    viol.append(V(f"{fn_name}:invalid-mode-answered", f"mode {bad_mode!r} is neither 'fan_in' nor 'fan_out' but the tensor was filled"))
                except (ValueError, KeyError, TypeError):
                    pass
        for shp in ([3], []):
            n += 1
            try:
                init._calculate_fan_in_and_fan_out(T(np.zeros(shp, dtype=np.float32)))
                viol.append(V("fans:rank<2-answered", "fan computation answered for a tensor with fewer than 2 dimensions"))
            except ValueError:
                pass
        return {"keys": [("tables", i) for i in range(2)], "evals": n, "viol": viol, "counters": {"table_checks": n}}
    if name.startswith("layer:"):
        layer = name.split(":")[1]
        ws, bs = [], []
        reps = 40 if layer != "Neuron" else 600          # (a Neuron has a single bias: many constructions for a usable sample)
        for _ in range(reps):
            if layer == "Linear":
                m = ns.nn.Linear(50, 20); fan = 50
            elif layer == "Neuron":
                m = ns.nn.Neuron(40); fan = 40
            elif layer == "Linear-wide":
                m = ns.nn.Linear(4, 300); fan = 4
            elif layer == "Conv1d":
                m = ns.nn.Conv1d(6, 10, 5); fan = 30
            elif layer == "Linear-fan1":
                m = ns.nn.Linear(1, 60); fan = 1
            elif layer == "Conv1d-fan1":
                m = ns.nn.Conv1d(1, 60, 1); fan = 1
            elif layer == "Conv2d-nonsquare":
                m = ns.nn.Conv2d(2, 30, (1, 5)); fan = 10
            elif layer == "Conv1d-dilated":
                m = ns.nn.Conv1d(3, 20, 3, dilation=4); fan = 9            # fan_in counts kernel elements, whatever the dilation / stride
            elif layer == "Conv2d-dilated-strided":
                m = ns.nn.Conv2d(2, 16, (2, 3), stride=2, dilation=(3, 2)); fan = 12
            else:
                m = ns.nn.Conv2d(4, 8, (3, 2)); fan = 24
            ws.append(m.weight.data.ravel().copy()); bs.append(m.bias.data.ravel().copy())
            if m.weight.dtype != np.float32 or not m.weight.requires_grad or not m.bias.requires_grad:
                viol.append(V(f"layer:{layer}:parameter-meta", "fresh layer parameters are not float32 tensors requiring grad"))
        bound = 1 / math.sqrt(fan)
        for which, arr in (("weight", np.concatenate(ws)), ("bias", np.concatenate(bs))):
            why = band_uniform(arr.astype(np.float64), -bound, bound) if arr.size >= 2000 else \
                ([] if (np.abs(arr).max() <= bound * (1 + 1e-6) and np.abs(arr).max() > bound * math.exp(-20.7 / max(1, arr.size))) else [f"max |x| {np.abs(arr).max():.4g} vs bound {bound:.4g}"])
            # (small samples: the largest of n uniform draws falls below bound * exp(-20.7 / n) with probability 1e-9 - a fixed 0.9 was a false
            #  alarm waiting to happen for the 40 biases of the Neuron case: seen once in a thorough sweep)
            counters["layer_bands"] = counters.get("layer_bands", 0) + 1
            if why:
                viol.append(V(f"layer:{layer}:{which}:distribution", f"fresh {layer} {which} is not U(-1/sqrt(fan_in), 1/sqrt(fan_in)) with fan_in={fan}: " + "; ".join(why)))
        return {"key": ("layer", layer), "viol": viol, "counters": counters, "cover": {"initialisers": [name]}}
    shp = tuple(c["shape"])
    dt = np.dtype(c["dtype"])
    a = c["args"]
    def fresh():
        st = c.get("storage", "plain")
        if st == "transposed-view" and len(shp) >= 2:
            arr = np.full(shp[::-1], 7.0, dtype=dt).transpose()          # same shape, Fortran-ordered view: the initialiser fills the tensor it is given
        elif st == "strided-view" and len(shp) >= 1:
            big_ = np.full(shp[:-1] + (2 * shp[-1],), 7.0, dtype=dt)
            arr = big_[..., ::2]
        elif st == "zeros":
            arr = np.zeros(shp, dtype=dt)                 # what the tensor holds before the fill is irrelevant (a tensor from zeros(), a re-initialised layer)
        elif st == "one-zero":
            arr = np.full(shp, 7.0, dtype=dt); arr.flat[arr.size // 2] = 0.0
        else:
            arr = np.full(shp, 7.0, dtype=dt)
        return T(arr, requires_grad=c["req"])
    t = fresh()
    fn = getattr(init, name)

    npsc = (lambda v: np.float64(v)) if c.get("np_scalar_args") else (lambda v: v)      # hyper-parameters given as NumPy scalars

    def call():
        kwform = c["seed"] % 2 == 1            # documented parameters by keyword or by position
        if name == "uniform_":
            return fn(t, a=npsc(a["a"]), b=npsc(a["b"])) if kwform else fn(t, npsc(a["a"]), npsc(a["b"]))
        if name == "normal_":
            return fn(t, mean=npsc(a["mean"]), std=npsc(a["std"])) if kwform else fn(t, npsc(a["mean"]), npsc(a["std"]))
        if name == "constant_":
            return fn(t, val=npsc(a["val"])) if kwform else fn(t, npsc(a["val"]))
        if name.startswith("xavier"):
            return fn(t, gain=npsc(a["gain"])) if kwform else fn(t, npsc(a["gain"]))
        if name.startswith("kaiming"):
            if a["nonlinearity"] == "leaky_relu" and c["seed"] % 3 == 0:
                # the documented default nonlinearity left out (a slope given, nothing else): the default is leaky_relu
                return fn(t, a=a["a"], mode=a["mode"]) if kwform else (fn(t, a["a"], a["mode"]) if a["mode"] != "fan_in" else fn(t, a["a"]))
            return fn(t, a=a["a"], mode=a["mode"], nonlinearity=a["nonlinearity"]) if kwform else fn(t, a["a"], a["mode"], a["nonlinearity"])
        return fn(t)
    try:
        if c.get("under_no_grad"):
            with ns.sg.no_grad():
                r = call()
        else:
            r = call()
    except Exception as e:
        return {"viol": [V(f"{name}:raises", f"{name} raised {type(e).__name__}", error=str(e)[:200], args=a)], "counters": counters}
    counters["init_calls"] = 1
    if r is not t:
        viol.append(V(f"{name}:identity", "the initialiser did not return the tensor it was given"))
    if tuple(t.shape) != shp or t.dtype != dt or bool(t.requires_grad) != c["req"]:
        viol.append(V(f"{name}:meta-changed", f"shape/dtype/requires_grad changed to {t.shape}/{t.dtype}/{t.requires_grad}", want=[list(shp), str(dt), c["req"]]))
    if not isinstance(t.data, np.ndarray):
        viol.append(V(f"{name}:data-type", "tensor data is no longer an ndarray"))
        return {"viol": viol, "counters": counters}

    def spec():
        if name == "uniform_":
            return ("U", a["a"], a["b"])
        if name == "normal_":
            return ("N", a["mean"], a["std"])
        fi, fo = ref_fans(shp) if len(shp) >= 2 else (None, None)
        if name == "xavier_uniform_":
            b = a["gain"] * math.sqrt(6.0 / (fi + fo)); return ("U", -b, b)
        if name == "xavier_normal_":
            return ("N", 0.0, a["gain"] * math.sqrt(2.0 / (fi + fo)))
        g = ref_gain(a["nonlinearity"], a["a"]) if name.startswith("kaiming") else None
        fan = fi if a.get("mode") == "fan_in" else fo
        if name == "kaiming_uniform_":
            b = g * math.sqrt(3.0 / fan); return ("U", -b, b)
        if name == "kaiming_normal_":
            return ("N", 0.0, g / math.sqrt(fan))
        return None
    x = t.data.astype(np.float64).ravel()
    # every fill is a fresh, independent sample / constant: a second tensor of the same shape and dtype filled right afterwards shares no storage
    # with the first, keeps its values when the first is updated in place (what optimizers do), and - for the random fillers - is a different draw
    if c.get("pool"):
        parts = [x]
        for _ in range(int(c["pool"]) - 1):
            call()
            parts.append(t.data.astype(np.float64).ravel().copy())
        x = np.concatenate(parts)
    first = t.data.copy()
    t_first = t
    t = fresh()
    try:
        call()
    except Exception as e:
        return {"viol": [V(f"{name}:raises:second-fill", f"{name} raised {type(e).__name__} on a second tensor", error=str(e)[:200])], "counters": counters}
    second, t_second = t.data.copy(), t
    t = t_first
    counters["independence_checks"] = 1
    if isinstance(t_second.data, np.ndarray) and np.shares_memory(t_first.data, t_second.data):
        viol.append(V(f"{name}:fills-share-storage", "two tensors filled by the same initialiser share one array"))
    t_first.data[...] = t_first.data - 0.5                       # in-place update of the first tensor
    if not np.array_equal(t_second.data, second):
        viol.append(V(f"{name}:fill-follows-another-tensor", "a filled tensor changed when another tensor filled earlier was updated in place"))
    t_first.data[...] = first
    if name not in ("constant_", "ones_", "zeros_") and first.size >= 8:
        if np.array_equal(first, second):
            viol.append(V(f"{name}:consecutive-fills-identical", "two consecutive fills returned the same sample"))
        else:
            f64, s64 = first.astype(np.float64).ravel(), second.astype(np.float64).ravel()
            if f64.std() > 0 and s64.std() > 0 and first.size >= 50:
                corr = float(np.corrcoef(f64, s64)[0, 1])
                # independent draws: corr ~ N(0, 1/n); 0.9 is > 6 sigma for n >= 50
                if abs(corr) > 0.9:
                    viol.append(V(f"{name}:consecutive-fills-correlated", f"two consecutive fills are correlated (r = {corr:.4f})"))
    if name in ("constant_", "ones_", "zeros_"):
        want = {"constant_": a.get("val"), "ones_": 1.0, "zeros_": 0.0}[name]
        for which, arr in (("first", first), ("second", second)):
            if not np.all(arr == np.asarray(want, dtype=dt)):
                viol.append(V(f"{name}:value", f"tensor not filled with {want} ({which} fill)"))
        t3 = fresh()
        t_first.data[...] = -3.0                                     # the first tensor moves on (training); a later fill is still the constant
        t = t3
        call()
        t = t_first
        if not np.all(t3.data == np.asarray(want, dtype=dt)):
            viol.append(V(f"{name}:value:after-earlier-fill-was-updated", f"a later fill is not {want} after an earlier filled tensor was updated in place"))
        t_first.data[...] = first
        return {"key": None, "viol": viol, "counters": counters, "cover": {"initialisers": [name]}}
    sp = spec()

    def judge(xs):
        return band_uniform(xs, sp[1], sp[2]) if sp[0] == "U" else band_normal(xs, sp[1], sp[2])
    if c.get("small"):
        if sp[0] == "U" and (x.min() < sp[1] or x.max() > sp[2]):
            viol.append(V(f"{name}:bounds", "samples outside the documented bounds"))
        if not np.all(np.isfinite(x)) or np.all(x == 7.0):
            viol.append(V(f"{name}:not-filled", "tensor was not (re)filled"))
        return {"key": None, "viol": viol, "counters": counters}
    why = judge(x)
    counters["bands_judged"] = 1
    if why:
        pooled = [x]
        for _ in range(3):
            call()
            pooled.append(t.data.astype(np.float64).ravel().copy())
        why2 = judge(np.concatenate(pooled))
        counters["resampled"] = 1
        if why2:
            cls = "scale" if any("std" in w or "range" in w or "outside [" in w for w in why2) else "location-or-shape"
            viol.append(V(f"{name}:distribution:{cls}", f"{name}{json.dumps(a)} on shape {list(shp)}: " + "; ".join(why2) +
                          f" (documented: {sp[0]}({sp[1]:.6g}, {sp[2]:.6g}))", args=a, shape=list(shp)))
    return {"key": (name, json.dumps(shp), json.dumps(a, sort_keys=True), c["dtype"]), "viol": viol, "counters": counters,
            "cover": {"initialisers": [name], "ranks": [f"rank{len(shp)}"], "modes": [a.get("mode", "-")], "nonlinearities": [a.get("nonlinearity", "-")]}}


def finish(agg, tier):
    c = agg["counters"]
    return [f"zero-events:{k}" for k in ("bands_judged", "table_checks", "layer_bands", "init_calls") if not c.get(k)]
